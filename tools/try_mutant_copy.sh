#!/bin/bash
# like try_mutant.sh but on a scratch worktree of /repo (so /repo itself is not touched and other checks may run):
# usage: tools/try_mutant_copy.sh <PROP> <seeded dir> [tier] [cell-regex]
PROP=$1; DIR=$2; TIER=${3:-quick}; RE=$4
W=/tmp/mutrepo_$$
git -C /repo worktree add -q $W HEAD || exit 9
trap 'git -C /repo worktree remove --force '$W' >/dev/null 2>&1' EXIT
echo "== demo on unchanged copy (expect PASS)"; timeout 300 /venv/bin/python $DIR/demo.py $W 2>&1 | tail -1
git -C $W apply $DIR/patch.diff || { echo "patch does not apply"; exit 9; }
echo "== demo on patched copy (expect FAIL)"; timeout 300 /venv/bin/python $DIR/demo.py $W 2>&1 | tail -1
cd /verif
mkdir -p /tmp/mut_evidence
QUATICA_REPO=$W VERIF_EVIDENCE_DIR=/tmp/mut_evidence VERIF_REPLAY_DIR=/tmp/mut_replays VERIF_JOBS=${MUT_JOBS:-6} timeout ${MUT_TIMEOUT:-1500} ./run $PROP $TIER $RE > /tmp/mut_$PROP.log 2>&1
echo "check exit=$?"
grep -v conda /tmp/mut_$PROP.log | grep "VIOLATION\|KNOWN\|HARNESS\|summary" | cut -c1-240 | head -6
