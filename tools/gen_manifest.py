#!/usr/bin/env python3
"""Regenerates /verif/MANIFEST.json from the table below (kept in one place so
the manifest stays valid while properties are added)."""
import json, os, sys
VERIF = os.path.dirname(os.path.dirname(os.path.abspath(__file__)))

TECH = 'bounded symbolic execution of the real source (import-hook loader + NumPy/quaternion shim); each clause is an SMT query over symbolic inputs decided by z3; sat models replayed on the real library'
TRUST = ('floats modelled as exact reals (rounding/overflow outside the claim); shim environment model of numpy / numpy-quaternion / '
         'scipy.sparse (symex/shim.py); z3; bounds and clauses outside the claim are listed in the evidence file')

CLAIMED = {
    'C01': dict(
        text='For every shape with m,k,n <= 3 and fully symbolic quaternion entries, all product paths (dense, sparse x dense, dense x sparse, '
             'sparse x sparse, the operator form and the split-component kernel incl. its scalar branches) equal the table-driven Hamilton-product '
             'oracle; conjugate transpose is an involution and reverses products; the squared Frobenius norm is the same polynomial in every '
             'storage format, invariant under ^H and under parametrised unitary factors; sub-multiplicativity on the listed small shapes. '
             'Each clause is an unsat verdict of z3 over all real entry values.',
        ref='3/C01'),
}

CLAIMED['C02'] = dict(
    text='For shapes <= 3 and fully symbolic entries: both real layouts (real_expand, Realp) equal the independently built left-multiplication '
         'representation, are real-linear, multiplicative against the Hamilton oracle, map ^H to transpose and scale the squared Frobenius norm '
         'by exactly 4; the complex adjoint is linear, multiplicative, *-preserving and scales by 2 (z3 over the reals). Round trips '
         '(contract o expand, component split/merge, column-block split) are decided bit-precisely for every binary64 value incl. inf/NaN/-0 '
         '(z3 FloatingPoint theory).',
    ref='3/C02')

CLAIMED['C18'] = dict(
    text='For every tensor shape I,J,K <= 3 and mode 0..2 with fully symbolic entries: fold(unfold(T)) = T, the unfolding equals the index-level '
         'definition (mode-n fibres as columns, C-order over the other axes) with the documented shape, and preserves the Frobenius norm and the '
         'entrywise moduli; rgb<->quaternion and split/stack are exact inverses (reals for all value ranges, and bit-precisely over binary64); '
         'psnr = +inf / relative_error = 0 iff the arrays are equal, relative_error = inf iff the reference is zero; the noise routine passes '
         'sigma^2 = ||Q||^2/(snr*size) and mean 0 to the generator and adds exactly what it draws.',
    ref='3/C18')

CLAIMED['C15'] = dict(
    text='For shapes <= 3x3 with symbolic entries: every Frobenius entry point (unified interface in all spellings, dense/sparse, legacy component '
         'and quaternion forms incl. the 1-D branch, tensor norm) has the same squared value sum|a_ij|^2, is non-negative and absolutely homogeneous; '
         'the induced 1-/inf-norms equal max column/row sums of moduli on every comparison path of their loops (one sqrt atom per entry), '
         '||A^H||_1 = ||A||_inf; the dispatcher accepts exactly ord in {None,fro,F,1,2,inf} (a symbolic numeric ord and 14 wrong spellings are '
         'rejected with ValueError); the spectral norm is the largest value the Q-SVD returns (stub); dual norm = documented formula; '
         'triangle inequality / sub-multiplicativity on the tiny shapes listed (thorough).',
    ref='3/C15')

CLAIMED['C17'] = dict(
    text='For images up to 4x4 (non-square included) and every PSF size up to the image with all taps symbolic: apply_blur_fft equals the '
         'index-level centred periodic convolution (impulse -> centred PSF, mass preserved); the dense and the sparse BCCB builders equal the '
         'explicit matrix of that operator; qslst_restore_fft returns X with (A^T A + lambda I) X = A^T B for that A (PSF symbolic on 2x2, concrete '
         'rational kernel families on 3x3/4x4, lambda symbolic in (0,10], B symbolic); the matrix path equals the FFT path; restoration is linear in B, '
         'channel-wise, and inverts the blur at lambda = 0 on every path without a vanishing Fourier coefficient. FFT = exact DFT over Q(i, sqrt 3).',
    ref='3/C17')

CLAIMED['C07'] = dict(
    text='On every feasible pivot path (all row-interchange sequences of the shape, enumerated by z3 feasibility of the symbolic pivot comparisons): '
         'P A = L U (three-output) and A = L U (two-output) as rational-function identities, P a permutation matrix, L unit lower trapezoidal with '
         '|l_ij| <= 1 under the path condition, U upper trapezoidal; the only exception raised is the zero-pivot ValueError. Full quaternion '
         'entries for m <= 2 (n <= 3) and m x 1 (m <= 4); real-axis / complex-subfield entries for 3x2, 2x3, 3x3 (quick) and up to 4x4 (thorough).',
    ref='3/C07')

NOT_YET = {}

NA = {
    'C12': 'every clause is a statement about orthonormal bases computed by LAPACK QR/SVD on random sketches; LAPACK cannot be encoded and with '
           'contract stubs nothing of the property remains but output shapes (DESIGN.md section 4)',
}


def main():
    props = [json.loads(l)['id'] for l in open(os.path.join(VERIF, 'properties.jsonl'))]
    checks = []
    for p in props:
        if p in CLAIMED:
            c = CLAIMED[p]
            checks.append({
                'property_id': p,
                'quick_cmd': './run %s quick' % p,
                'thorough_cmd': './run %s thorough' % p,
                'evidence_file': '/verif/evidence/%s.json' % p,
                'replay_cmd_template': './run replay {path}',
                'engine': 'symex',
                'level_claimed': {'category': 'model_checking', 'text': c['text'], 'design_ref': 'DESIGN.md section ' + c['ref']},
                'level_note': c.get('note', TRUST),
                'technique': c.get('technique', TECH),
            })
    na = []
    for p in props:
        if p in CLAIMED:
            continue
        if p in NA:
            na.append({'property_id': p, 'reason': NA[p]})
        else:
            na.append({'property_id': p, 'reason': NOT_YET.get(p, 'solver-based check not built yet (work in progress; see DESIGN.md section 3 for the planned encoding)')})
    man = {
        'version': 1,
        'setup_cmd': './setup.sh',
        'hooks': {
            'guard': 'QUATICA_VERIF',
            'enable': 'no source hooks are needed: the checks load /repo\'s source through a private import hook (symex/loader.py); QUATICA_VERIF=1 is exported by ./run for completeness',
            'baseline_off_cmd': 'cd /repo && /venv/bin/python -m pytest -ra -q -p no:cacheprovider --timeout=900 --continue-on-collection-errors',
            'source_commits': [],
            'add_only': True,
        },
        'engines': [{
            'name': 'symex',
            'path': '/verif/symex',
            'serves_properties': sorted(CLAIMED),
            'kind_free_text': 'symbolic executor for the NumPy/quaternion code of /repo: scalar domains (raw z3 Real terms; normalised rational functions with lazy sqrt atoms), path explorer with z3 feasibility checks, dual-mode harness (symbolic / real-library replay)',
        }],
        'checks': checks,
        'not_applicable': na,
        'notes': 'Exit codes of ./run: 0 held on everything explored; 1 VIOLATION (solver counterexample reproduced on the real library); 3 harness error (unsupported operation, unreproduced counterexample, vacuous twin).',
    }
    with open(os.path.join(VERIF, 'MANIFEST.json'), 'w') as f:
        json.dump(man, f, indent=1)
    try:
        import jsonschema
        jsonschema.validate(man, json.load(open('/root/.vp/MANIFEST.schema.json')))
        print('MANIFEST.json valid; claimed:', sorted(CLAIMED))
    except ImportError:
        print('written (jsonschema not available)')


if __name__ == '__main__':
    main()
