#!/usr/bin/env python3
"""Regenerates /verif/MANIFEST.json from the table below (kept in one place so
the manifest stays valid while properties are added)."""
import json, os, sys
VERIF = os.path.dirname(os.path.dirname(os.path.abspath(__file__)))

TECH = 'bounded symbolic execution of the real source (import-hook loader + NumPy/quaternion shim); each clause is an SMT query over symbolic inputs decided by z3; sat models replayed on the real library'
TRUST = ('floats modelled as exact reals (rounding/overflow outside the claim); shim environment model of numpy / numpy-quaternion / '
         'scipy.sparse (symex/shim.py); z3; bounds and clauses outside the claim are listed in the evidence file')

CLAIMED = {
    'C01': dict(
        text='For every shape with m,k,n <= 3 and fully symbolic quaternion entries, all product paths (dense, sparse x dense, dense x sparse, '
             'sparse x sparse, the operator form and the split-component kernel incl. its scalar branches) equal the table-driven Hamilton-product '
             'oracle; conjugate transpose is an involution and reverses products; the squared Frobenius norm is the same polynomial in every '
             'storage format, invariant under ^H and under parametrised unitary factors; sub-multiplicativity on the listed small shapes. '
             'Each clause is an unsat verdict of z3 over all real entry values.',
        ref='3/C01'),
}

CLAIMED['C02'] = dict(
    text='For shapes <= 3 and fully symbolic entries: both real layouts (real_expand, Realp) equal the independently built left-multiplication '
         'representation, are real-linear, multiplicative against the Hamilton oracle, map ^H to transpose and scale the squared Frobenius norm '
         'by exactly 4; the complex adjoint is linear, multiplicative, *-preserving and scales by 2 (z3 over the reals). Round trips '
         '(contract o expand, component split/merge, column-block split) are decided bit-precisely for every binary64 value incl. inf/NaN/-0 '
         '(z3 FloatingPoint theory).',
    ref='3/C02')

CLAIMED['C18'] = dict(
    text='For every tensor shape I,J,K <= 3 and mode 0..2 with fully symbolic entries: fold(unfold(T)) = T, the unfolding equals the index-level '
         'definition (mode-n fibres as columns, C-order over the other axes) with the documented shape, and preserves the Frobenius norm and the '
         'entrywise moduli; rgb<->quaternion and split/stack are exact inverses (reals for all value ranges, and bit-precisely over binary64); '
         'psnr = +inf / relative_error = 0 iff the arrays are equal, relative_error = inf iff the reference is zero; the noise routine passes '
         'sigma^2 = ||Q||^2/(snr*size) and mean 0 to the generator and adds exactly what it draws.',
    ref='3/C18')

CLAIMED['C15'] = dict(
    text='For shapes <= 3x3 with symbolic entries: every Frobenius entry point (unified interface in all spellings, dense/sparse, legacy component '
         'and quaternion forms incl. the 1-D branch, tensor norm) has the same squared value sum|a_ij|^2, is non-negative and absolutely homogeneous; '
         'the induced 1-/inf-norms equal max column/row sums of moduli on every comparison path of their loops (one sqrt atom per entry), '
         '||A^H||_1 = ||A||_inf; the dispatcher accepts exactly ord in {None,fro,F,1,2,inf} (a symbolic numeric ord and 14 wrong spellings are '
         'rejected with ValueError); the spectral norm is the largest value the Q-SVD returns (stub); dual norm = documented formula; '
         'triangle inequality / sub-multiplicativity on the tiny shapes listed (thorough).',
    ref='3/C15')

CLAIMED['C17'] = dict(
    text='For images up to 4x4 (non-square included) and every PSF size up to the image with all taps symbolic: apply_blur_fft equals the '
         'index-level centred periodic convolution (impulse -> centred PSF, mass preserved); the dense and the sparse BCCB builders equal the '
         'explicit matrix of that operator; qslst_restore_fft returns X with (A^T A + lambda I) X = A^T B for that A (PSF symbolic on 2x2, concrete '
         'rational kernel families on 3x3/4x4, lambda symbolic in (0,10], B symbolic); the matrix path equals the FFT path; restoration is linear in B, '
         'channel-wise, and inverts the blur at lambda = 0 on every path without a vanishing Fourier coefficient. FFT = exact DFT over Q(i, sqrt 3).',
    ref='3/C17')

CLAIMED['C07'] = dict(
    text='On every feasible pivot path (all row-interchange sequences of the shape, enumerated by z3 feasibility of the symbolic pivot comparisons): '
         'P A = L U (three-output) and A = L U (two-output) as rational-function identities, P a permutation matrix, L unit lower trapezoidal with '
         '|l_ij| <= 1 under the path condition, U upper trapezoidal; the only exception raised is the zero-pivot ValueError. Full quaternion '
         'entries for m <= 2 (n <= 3) and m x 1 (m <= 4); real-axis / complex-subfield entries for 3x2, 2x3, 3x3 (quick) and up to 4x4 (thorough).',
    ref='3/C07')

CLAIMED['C03'] = dict(
    text='With A and gamma in (0,1] symbolic: the iterate returned after k iterations equals the documented recurrence from X0 = A^H/||A||_F^2 (left form '
         'for m >= n, right form for m < n; third-order update) as a rational-function identity (shapes up to 2x2 full / 3x2 real, k <= 2); every entry of '
         'the residual dict and covariance list is the true value of the iterate it is reported for; on the diagonal family A = diag(s) padded (any s > 0) '
         'the iterates follow the spectral model t <- t(1+gamma(1-t)) resp. 1-(1-t)^3 and ||AXA-A||_F does not increase (k <= 3); runs that stop early do '
         'so only below tol; the zero matrix gives X = 0.',
    ref='3/C03')
CLAIMED['C04'] = dict(
    text='For n = 1 (A, b symbolic) and n = 2 (A from the named classes identity / scaled identity / diagonal / triangular / Hermitian / real-axis generic, b '
         'symbolic), dense or sparse A, preconditioner none / left_lu, iteration caps 0..n: on every path of the symbolic run, including every lucky-breakdown '
         'and degenerate-rotation path, info.residual is the true relative residual of the returned x, converged is only reported for a residual <= 10 tol, '
         'the default cap reaches tol, the residual history is non-increasing, b = 0 gives x = 0, and both preconditioner settings return solutions of the system.',
    ref='3/C04')
CLAIMED['C05'] = dict(
    text='Glue level only: with np.linalg.svd replaced by a structured contract stub, classical_qsvd(_full) hands LAPACK the real embedding of the input '
         '(full_matrices=True), contracts U and Vt^T correctly, takes every 4th singular value, truncates to rank R with the documented shapes, and the '
         'returned triple satisfies A - U_R S_R V_R^H = tail for every (m,n) <= 3x3 and every R; 1x1 input with ANY orthogonal real U (thorough).',
    ref='3/C05',
    note='LAPACK (compiled Fortran) cannot be encoded: orthonormality of the contracted U, V for repeated / zero singular values is OUTSIDE the claim '
         '(evidence: outside_claim). Floats as reals; shim environment model; z3.')
CLAIMED['C06'] = dict(
    text='Glue level only: with scipy.linalg.qr replaced by a structured contract stub, qr_qua hands LAPACK the real embedding of the input, extracts the thin '
         '(tall/square) or full (wide) factors, contracts them, returns the documented shapes, Q R = A and an upper-trapezoidal R for every shape <= 3x3 '
         'including wide ones.',
    ref='3/C06',
    note='LAPACK cannot be encoded: that its real QR of the embedding is quaternion-structured (needed for orthonormal Q and A = QR on wide / rank-deficient '
         'input) is OUTSIDE the claim. Floats as reals; shim environment model; z3.')
CLAIMED['C08'] = dict(
    text='householder_matrix on a symbolic quaternion vector of length 1..3 is unitary and maps it to a real multiple of e1 of modulus ||a|| on every branch '
         '(zero vector, zero first entry); tridiagonalize on a symbolic Hermitian matrix (n = 2 full; n = 3 for the listed sparsity patterns incl. zero '
         'sub-columns, already tridiagonal with complex off-diagonals, diagonal; n = 3 real/complex/full in thorough) returns unitary P and real symmetric '
         'tridiagonal B with P A P^H = B (the clean-up discards nothing); non-square, 1x1 and non-Hermitian-by-a-margin inputs raise; eigendecomposition glue: '
         'with eig replaced by its contract, eigenvalues are those of B and A V = V diag(lambda).',
    ref='3/C08',
    note='The eigen-solver part rests on a contract stub of np.linalg.eig (LAPACK): unitarity of V / correctness of the spectrum for repeated eigenvalues are '
         'outside the claim. Floats as reals; shim environment model; z3.')
CLAIMED['C09'] = dict(
    text='hessenbergize: n <= 2 returns (I, copy of A); n = 3 with symbolic entries (real / complex / patterns with zero sub-columns, already Hessenberg, '
         'triangular; full quaternions in thorough): P unitary, H = P A P^H on and above the sub-diagonal, exact zero below it with the discarded value '
         'bounded by 1e-12, equal Frobenius norms; n = 3..5 compositionally with the reflector replaced by arbitrary symbolic matrices: update order, '
         'embedding offsets and the column handed to the reflector generator are pinned as polynomial identities.',
    ref='3/C09')
CLAIMED['C11'] = dict(
    text='Glue level: with the Q-SVD / eigen-solver replaced by contract stubs (symbolic factors, sorted non-negative singular values), on every threshold '
         'path: rank = #{s_i > eps*max(m,n)*s_1} (or > tol), rank(A^H) = rank(A); the null-space routines and wrappers return exactly the trailing columns of '
         'V (U) with shape (dim, dim - r), whose singular values are <= rtol*s_1, and agree with rank for equal thresholds; Dieudonne determinant = product '
         'of singular values, Moore = product of eigenvalues and refused for a non-Hermitian-by-a-margin matrix; ishermitian accepts exactly Hermitian '
         'symbolic matrices and rejects a 1e-3 relative defect.',
    ref='3/C11',
    note='Independence of null vectors for nullity >= 2, det multiplicativity and rank invariance under invertible factors depend on LAPACK bases (C05) and are '
         'outside the claim. Floats as reals; shim; z3.')
CLAIMED['C14'] = dict(
    text='With an aliasing-faithful shim: every cell of every argument of ~45 public entry points (algebra, norms, kernels, LU, reductions, pseudoinverse '
         'solvers, Q-GMRES, imaging) equals its initial term after the call; vars(solver) is unchanged by a call for all five solver classes; for QGMRESSolver '
         'and RandomizedSketchProjectPseudoinverse every two-problem history over different sizes hands the same effective configuration (iteration cap, '
         'block size) to the kernels as a fresh object; repeating a Newton-Schulz call repeats the result.',
    ref='3/C14',
    note='Import-style clause and reproducibility of the real bit generator are outside the claim (not values). Histories use recording stubs for the '
         'heavy kernels. Floats as reals; shim; z3.')
CLAIMED['C16'] = dict(
    text='ggivens on two symbolic quaternions (all kinds incl. zero / real / pure components, both ordering branches, the tiny-norm branch): G is orthogonal, '
         'quaternion-structured and maps the pair to (norm, 0); GRSGivens in both call forms is orthogonal and maps g to (|g|,0,0,0) unless the imaginary part '
         'is negligible; Hess_QR_ggivens for k = 1 (k = 2, 3 in thorough) on every zero pattern: W^H W = I, W R = H, R upper triangular; absQsparse / '
         'dotinvQsparse accuracy over |q| in [1e-6,1e6]; forward, backward and component-form substitution for n <= 3 (4 thorough) and 1..3 right-hand sides: '
         'each entry is the routine\'s own scalar step applied to the remainder, and the scalar step satisfies |d x - 1| <= 1e-10.',
    ref='3/C16')
CLAIMED['C20'] = dict(
    text='Guard table (18 rows, ~120 cells): for each anchored entry point and each out-of-domain argument class (non-square, wrong orientation, real / sparse '
         'where a dense quaternion array is required, 1-D, empty, mismatched sizes, wrong fold shape, non-Hermitian by a margin) every path of the symbolic run '
         'raises the documented exception with all arguments unchanged; enumerated options (norm ord, determinant type, null-space side, unfolding mode, '
         'boundary, adjoint axis) are symbolic strings / ints so that exactly the documented spellings are accepted; in-domain boundary shapes (1x1, 1xn, nx1) '
         'never trip a guard.',
    ref='3/C20')

CLAIMED['C10'] = dict(
    text='Compositional: with hessenbergize, householder_matrix, ggivens, the shift estimator and np.linalg.eigvals replaced by fresh symbolic matrices / reals '
         '(arbitrary matrices for the implicit variants; rationally parametrised reflectors / plane rotations for the explicit-shift and real-block variants, whose '
         'similarity needs unitarity), every Schur variant (real-expansion rayleigh/wilkinson/double; pure none/rayleigh; implicit; unified none/rayleigh/implicit/aed/ds '
         'with and without precomputed shifts; experimental aed_windowed/francis_ds) run for n = 2 (n = 3 and two outer iterations in thorough) satisfies T = Q^H A Q '
         'as a polynomial identity on every path; entries where they differ are exactly the deflated sub-diagonal ones and were bounded by the tolerance scale; the '
         'converged flag implies a negligible sub-diagonal; with zero iterations Q = P0^H and T = H0.',
    ref='3/C10',
    note='Unitarity of Q rests on the kernel contracts verified in C08 (reflectors) and C16 (rotations); convergence is not claimed. Floats as reals; shim; z3.')
CLAIMED['C13'] = dict(
    text='Deterministic parts only: CGNEQSolver (no preconditioner, shapes up to 2x2 real / 2x1 full, <= 2 steps): the last reported residual is the true '
         '||I - XA||_F/sqrt(n) of the returned X, converged only below tol, flag consistent; RSP column variant (block size 1, all sketch draws symbolic, exact QR stub, '
         'incl. an injected micro-solver failure): one residual per successful iteration, the last proxy is the proxy of the returned X, the flag is computed from it, '
         'and the projection step satisfies its sketched constraint up to the documented 1e-30 regulariser; Hybrid: hyperpower step = (sum_{i<p} F^i) X and '
         'I - X+A = F^p, proxy / flag consistency (n = 1 with all draws symbolic; n = 2 with A symbolic and the sketch draws fixed to non-trivial rationals).',
    ref='3/C13',
    note='That a small proxy (random test sketch) implies a small true residual is probabilistic and outside the claim; so are the SPD/CG micro-solver, block sizes > 1 '
         'and convergence. Floats as reals; shim; z3.')
CLAIMED['C19'] = dict(
    text='Boundedness clauses only: for n = 1 (full quaternion A, any start vector, 1-2 iterations; n = 2 real-axis in thorough) on every exit path (breakdown, '
         'convergence test, stagnation test, budget) power_iteration returns a unit-norm vector and estimate = |v^H A v| >= 0 (= |a| for n = 1, <= ||A||_F for n = 2); '
         'the Hermitian fast path of power_iteration_nonhermitian returns a real eigenvalue in both formats and a unit vector; the complex-adjoint path returns a unit '
         'quaternion vector (thorough). Positive homogeneity: power_iteration(cA), c > 0 symbolic, from the same symbolic start returns the same vector and c times the '
         'estimate on every exit path (n = 1 real-axis in quick; complex / full / n = 2 in thorough) - the stopping tests cannot depend on the magnitude of A.',
    ref='3/C19',
    note='Convergence to the dominant eigenpair, the sign clause and the sharp bound by the spectral norm are limit / LAPACK statements and are outside the claim. '
         'Floats as reals; shim; z3.')

NOT_YET = {}

CLAIMED['C12'] = dict(
    text='Sketch width 1 only (R = 1, oversample = 0), where both LAPACK calls have exact contract stubs (QR of an m x 1 quaternion column; SVD of the 4x4 '
         'embedding of a 1x1 quaternion with an arbitrary unit first basis vector): for A up to 2x2 (full quaternion for vector shapes, real-axis 2x2 in quick, '
         'complex/full in thorough), 0..1 power iterations of rand_qsvd and 2..3 passes of pass_eff_qsvd, every Gaussian draw symbolic: U and V are unit-norm, s >= 0, '
         '||A - U s V^H||_F^2 = ||A||_F^2 - s^2 (so s = U^H A V and the error is at most ||A||_F), s <= ||A||_F (= sigma_1 for vector-shaped and rank-1 input), and '
         'A = U s V^H whenever rank(A) <= 1, for every draw that does not annihilate the sketch.',
    ref='3/C12',
    note='Sketch widths >= 2 (LAPACK factorisations of blocks, not fixed by their contracts) are outside the solver claim and only exercised by the tolerance-based '
         'real-library battery attached to the path witnesses; s_i <= sigma_i for general matrices is decided in the weaker form s <= ||A||_F. Floats as reals; shim; z3.')

NA = {}


def main():
    props = [json.loads(l)['id'] for l in open(os.path.join(VERIF, 'properties.jsonl'))]
    checks = []
    for p in props:
        if p in CLAIMED:
            c = CLAIMED[p]
            checks.append({
                'property_id': p,
                'quick_cmd': './run %s quick' % p,
                'thorough_cmd': './run %s thorough' % p,
                'evidence_file': '/verif/evidence/%s.json' % p,
                'replay_cmd_template': './run replay {path}',
                'engine': 'symex',
                'level_claimed': {'category': 'model_checking', 'text': c['text'], 'design_ref': 'DESIGN.md section ' + c['ref']},
                'level_note': c.get('note', TRUST),
                'technique': c.get('technique', TECH),
            })
    na = []
    for p in props:
        if p in CLAIMED:
            continue
        if p in NA:
            na.append({'property_id': p, 'reason': NA[p]})
        else:
            na.append({'property_id': p, 'reason': NOT_YET.get(p, 'solver-based check not built yet (work in progress; see DESIGN.md section 3 for the planned encoding)')})
    man = {
        'version': 1,
        'setup_cmd': './setup.sh',
        'hooks': {
            'guard': 'QUATICA_VERIF',
            'enable': 'no source hooks are needed: the checks load /repo\'s source through a private import hook (symex/loader.py); QUATICA_VERIF=1 is exported by ./run for completeness',
            'baseline_off_cmd': 'cd /repo && /venv/bin/python -m pytest -ra -q -p no:cacheprovider --timeout=900 --continue-on-collection-errors',
            'source_commits': [],
            'add_only': True,
        },
        'engines': [{
            'name': 'symex',
            'path': '/verif/symex',
            'serves_properties': sorted(CLAIMED),
            'kind_free_text': 'symbolic executor for the NumPy/quaternion code of /repo: scalar domains (raw z3 Real terms; normalised rational functions with lazy sqrt atoms), path explorer with z3 feasibility checks, dual-mode harness (symbolic / real-library replay)',
        }],
        'checks': checks,
        'not_applicable': na,
        'notes': 'Exit codes of ./run: 0 held on everything explored; 1 VIOLATION (solver counterexample reproduced on the real library); 3 harness error (unsupported operation, unreproduced counterexample, vacuous twin).',
    }
    with open(os.path.join(VERIF, 'MANIFEST.json'), 'w') as f:
        json.dump(man, f, indent=1)
    try:
        import jsonschema
        jsonschema.validate(man, json.load(open('/root/.vp/MANIFEST.schema.json')))
        print('MANIFEST.json valid; claimed:', sorted(CLAIMED))
    except ImportError:
        print('written (jsonschema not available)')


if __name__ == '__main__':
    main()
