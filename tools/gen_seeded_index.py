#!/usr/bin/env python3
"""regenerate seeded/INDEX.md from the meta.json files"""
import json, glob, os
root = os.path.join(os.path.dirname(os.path.abspath(__file__)), '..', 'seeded')
head = """# Seeded changes and which check catches them

Each directory holds `patch.diff` (apply with `git -C /repo apply`), `demo.py`
(`/venv/bin/python demo.py /repo`: PASS on the unchanged tree, FAIL with the
patch), the author's `agent_meta.json` and my `meta.json` (what I ran, result).
All were produced by sub-agents that saw only the property text and a scratch
worktree. Trials: `tools/try_mutant.sh <PROP> seeded/<id> quick` (on /repo itself, reverted by a trap) or
`tools/try_mutant_copy.sh <PROP> /verif/seeded/<id> quick [cell-regex]` (on a scratch worktree; /repo untouched).

| id | change | result |
|---|---|---|
"""
rows = []
n = c = 0
for d in sorted(glob.glob(os.path.join(root, '*-*'))):
    mp = os.path.join(d, 'meta.json')
    if not os.path.exists(mp):
        continue
    m = json.load(open(mp))
    n += 1
    c += bool(m.get('caught_by_check'))
    what = m.get('what_it_breaks', '').replace('|', '/').replace('\n', ' ')
    what = what[:150] + ('…' if len(what) > 150 else '')
    res = ('**caught**: ' if m.get('caught_by_check') else 'not caught: ') + str(m.get('caught_by', '-')).replace('|', '/')
    if m.get('note'):
        res += ' — ' + m['note'].replace('|', '/').replace('\n', ' ')
    rows.append('| %s | %s | %s |' % (os.path.basename(d), what, res))
open(os.path.join(root, 'INDEX.md'), 'w').write(head + '\n'.join(rows) + '\n\n%d changes, %d caught.\n' % (n, c))
print(n, c)
