#!/bin/bash
# usage: tools/try_mutant.sh <PROP> <worktree-or-seeded-dir> [tier] [cell-regex]
# applies MUTATION/patch.diff (or patch.diff) to /repo, runs the property's check, reverts.
PROP=$1; DIR=$2; TIER=${3:-quick}; RE=$4
P=$DIR/MUTATION/patch.diff; [ -f "$P" ] || P=$DIR/patch.diff
D=$DIR/MUTATION/demo.py; [ -f "$D" ] || D=$DIR/demo.py
cd /repo || exit 9
if ! git diff --quiet; then echo "/repo has uncommitted changes"; exit 9; fi
trap 'cd /repo && git checkout -- . ' EXIT
echo "== demo on unchanged /repo (expect PASS/0)"; timeout 300 /venv/bin/python $D /repo 2>&1 | tail -1
git apply $P || { echo "patch does not apply"; exit 9; }
echo "== demo on mutated /repo (expect FAIL/1)"; timeout 300 /venv/bin/python $D /repo 2>&1 | tail -1
echo "== check $PROP $TIER on mutated /repo"
cd /verif && timeout ${MUT_TIMEOUT:-900} ./run $PROP $TIER $RE > /tmp/mut_$PROP.log 2>&1
echo "check exit=$?"
grep -v conda /tmp/mut_$PROP.log | grep "VIOLATION\|KNOWN\|HARNESS\|summary" | cut -c1-260 | head -8
cd /repo && git checkout -- . && git status --short | grep -v validation_output
