#!/bin/bash
# Builds /verif/.venv offline: a venv of /venv/bin/python that sees /venv's
# site-packages (numpy, scipy, numpy-quaternion, the repo's deps) plus z3-solver
# from the offline wheelhouse.  Idempotent; safe to call concurrently.
set -e
cd "$(dirname "$0")"
exec 9>.setup.lock
flock 9
if [ -x .venv/bin/python ] && .venv/bin/python -c "import z3, numpy, quaternion, scipy" 2>/dev/null; then
  exit 0
fi
rm -rf .venv
/venv/bin/python -m venv .venv
echo "import site; site.addsitedir('/venv/lib/python3.12/site-packages')" > .venv/lib/python3.12/site-packages/_overlay.pth
PIP_NO_INDEX=1 .venv/bin/pip install -q --no-index --find-links /opt/veriftools/wheels z3-solver crosshair-tool >/dev/null
.venv/bin/python -c "import z3, numpy, quaternion, scipy; print('verif venv ready: z3', z3.get_version_string())"
