"""C11 - rank, null spaces and determinants agree with the singular / eigen structure (glue)."""
from fractions import Fraction

from symex.runner import Cell
from . import common as cm

PROP = 'C11'
EPS = Fraction(1, 2 ** 52)


def _svd_stub(env, m, n, calls=None):
    p = min(m, n)
    s = env.rarr('s', (p,))
    for i in range(p):
        env.assume(s[i] >= 0, 'sigma_i >= 0')
        if i:
            env.assume(s[i - 1] >= s[i], 'sigma sorted')
    U = env.qarr('u', (m, m))
    V = env.qarr('v', (n, n))

    def stub(X):
        if calls is not None:
            calls.append(X)
        return U, s.copy(), V
    return stub, U, s, V


def rank_glue(env, m, n, explicit_tol=False):
    Ut = env.R.utils
    A = env.qarr('a', (m, n))
    if not env.symbolic:
        r = Ut.rank(A)
        env.holds('rank within 0..min(m,n)', 0 <= r <= min(m, n))
        env.holds('rank(A^H) = rank(A)', Ut.rank(Ut.quat_hermitian(A)) == r)
        # real-library battery (tolerance-free integer clauses) on rank-deficient products L R of genuinely non-commuting quaternion
        # factors, strongly rectangular shapes included (seeded change C11-e: a fast path for max(m,n) >= 2 min(m,n) that used the plain
        # transpose): rank = r for A, A^H; left/right multiplication by an invertible matrix keeps it; null spaces have n - r / m - r columns
        import numpy as np
        rs = np.random.RandomState(3)
        Af = env.quaternion.as_float_array(A)
        for (M, N, rk) in [(2, 4, 1), (2, 5, 1), (3, 6, 2), (3, 7, 1), (4, 2, 1), (6, 3, 2), (3, 3, 2), (4, 5, 3)]:
            L, Rt = rs.randn(M, rk, 4), rs.randn(rk, N, 4)
            L[0, 0, :] += Af[0, 0, :] if np.all(np.isfinite(Af[0, 0, :])) and np.max(np.abs(Af[0, 0, :])) < 1e3 else 0.0
            B = Ut.quat_matmat(env.quaternion.as_quat_array(L), env.quaternion.as_quat_array(Rt))
            tag = '[battery %dx%d rank %d] ' % (M, N, rk)
            env.holds(tag + 'rank(A) = number of non-negligible singular values', Ut.rank(B) == rk)
            env.holds(tag + 'rank(A^H) = rank(A)', Ut.rank(Ut.quat_hermitian(B)) == rk)
            G = env.quaternion.as_quat_array(rs.randn(M, M, 4) + 3 * np.eye(M)[:, :, None] * np.array([1.0, 0, 0, 0]))
            env.holds(tag + 'rank(G A) = rank(A) for invertible G', Ut.rank(Ut.quat_matmat(G, B)) == rk)
            Nr = Ut.quat_null_space(B, side='right')
            Nl = Ut.quat_null_space(B, side='left')
            env.holds(tag + 'right null space has n - rank columns, left has m - rank', Nr.shape[1] == N - rk and Nl.shape[1] == M - rk)
        return
    calls = []
    stub, U, s, V = _svd_stub(env, m, n, calls)
    old = env.R.qsvd.classical_qsvd_full
    env.R.qsvd.classical_qsvd_full = stub
    try:
        if explicit_tol:
            t = env.real('tol')
            r = Ut.rank(env.twist(A), tol=t)
            thr = t
        else:
            r = Ut.rank(env.twist(A))
            thr = EPS * max(m, n) * s[0]
        rH = Ut.rank(Ut.quat_hermitian(A)) if not explicit_tol else None
    finally:
        env.R.qsvd.classical_qsvd_full = old
    env.holds('Q-SVD is called on the matrix itself', len(calls) >= 1 and calls[0] is not None)
    want = 0
    for i in range(min(m, n)):
        if env.cond(s[i] > thr):
            want += 1
    env.holds('rank = number of singular values above the documented threshold', isinstance(r, int) and r == want)
    if rH is not None:
        env.holds('rank(A^H) = rank(A) (same singular values)', rH == r)


def null_glue(env, m, n, side, via='quat_null_space'):
    Ut = env.R.utils
    A = env.qarr('a', (m, n))
    if not env.symbolic:
        import numpy as np
        # the matrix of this model: diag(|s|) padded (so the modelled singular values are the real ones), plus the generic A
        sv_m = sorted([abs(float(env.real('s_%d' % i))) for i in range(min(m, n))], reverse=True)
        rt_m = abs(float(env.real('rtol'))) or 1e-10
        D = cm.qmat_from_nested(env, [[[sv_m[i] if i == j else 0.0, 0, 0, 0] for j in range(n)] for i in range(m)])
        if sv_m and sv_m[0] > 0 and 0 < rt_m < 1 and all(abs(x - rt_m * sv_m[0]) > 1e-3 * rt_m * sv_m[0] for x in sv_m):
            Nd = Ut.quat_null_space(D, side=side, rtol=rt_m)
            rd = sum(1 for x in sv_m if x > rt_m * sv_m[0])
            env.holds('diag(s) model: null-space basis has dim - r columns with r = #{s_i > rtol s_1}', Nd.shape[1] == (n if side == 'right' else m) - rd)
        N = Ut.quat_null_space(A, side=side)
        dim = n if side == 'right' else m
        env.holds('null space has the right number of rows', N.shape[0] == dim)
        sv = np.linalg.svd(Ut.real_expand(A), compute_uv=False)[::4]
        r = int(np.sum(sv > 1e-10 * sv[0])) if sv[0] > 0 else 0
        gap = all(abs(x / sv[0] - 1e-10) > 1e-12 for x in sv) if sv[0] > 0 else True
        if gap:
            env.holds('null-space basis has dim - rank columns (rank from the singular values of the real embedding)', N.shape[1] == dim - r)
        return
    stub, U, s, V = _svd_stub(env, m, n)
    rt = env.real('rtol')
    env.assume(rt > 0, 'rtol > 0')
    env.assume(rt < 1, 'rtol < 1')
    old = env.R.qsvd.classical_qsvd_full
    env.R.qsvd.classical_qsvd_full = stub
    try:
        if via == 'quat_null_space':
            N = Ut.quat_null_space(env.twist(A), side=side, rtol=rt)
        elif via == 'kernel':
            N = Ut.quat_kernel(env.twist(A), side=side, rtol=rt)
        elif side == 'right':
            N = Ut.quat_null_right(env.twist(A), rtol=rt)
        else:
            N = Ut.quat_null_left(env.twist(A), rtol=rt)
        # rank with the same threshold
        rk = Ut.rank(A, tol=rt * s[0])
    finally:
        env.R.qsvd.classical_qsvd_full = old
    p = min(m, n)
    r = 0
    for i in range(p):
        if env.cond(s[i] > rt * s[0]):
            r += 1
    dim = n if side == 'right' else m
    F = V if side == 'right' else U
    env.holds('null-space basis has shape (dim, dim - r)', tuple(N.shape) == (dim, dim - r))
    env.holds('rank with the same threshold: columns = dim - rank', rk == r)
    if dim - r > 0:
        env.eq('basis = trailing columns of the singular-vector matrix', cm.as_nested(env, N), [row[r:] for row in cm.as_nested(env, F)])
    for i in range(r, p):
        env.le('singular values of the null directions are negligible', s[i], rt * s[0])


def null_bad_side(env):
    Ut = env.R.utils
    A = env.qarr('a', (2, 2))
    for sd in ('Right', 'both', '', 'r'):
        env.raises('invalid side %r rejected' % sd, lambda sd=sd: Ut.quat_null_space(A, side=sd), (ValueError,))


def det_glue(env, n, kind):
    Ut = env.R.utils
    if kind in ('Dieudonne', 'Dieudonné'):
        A = env.qarr('a', (n, n))
        if not env.symbolic:
            d = Ut.det(A, kind)
            env.le('Dieudonne determinant >= 0', 0, d)
            return
        stub, U, s, V = _svd_stub(env, n, n)
        old = env.R.qsvd.classical_qsvd_full
        env.R.qsvd.classical_qsvd_full = stub
        try:
            d = Ut.det(env.twist(A), kind)
        finally:
            env.R.qsvd.classical_qsvd_full = old
        want = 1
        for i in range(n):
            want = want * s[i]
        env.eq('Dieudonne determinant = product of singular values', [d], [want + 1 if env.twin else want])
    elif kind == 'Moore':
        A = env.qherm('a', n)
        if not env.symbolic:
            d = Ut.det(A, 'Moore')
            env.holds('Moore determinant of a Hermitian matrix is real', abs(complex(d).imag) < 1e-9)
            return
        lam = env.rarr('lam', (n,))
        old = env.R.decomp.quaternion_eigenvalues
        seen = []

        def estub(X, *a, **k):
            seen.append(X)
            return lam.copy()
        env.R.decomp.quaternion_eigenvalues = estub
        try:
            d = Ut.det(env.twist(A), 'Moore')
        finally:
            env.R.decomp.quaternion_eigenvalues = old
        want = 1
        for i in range(n):
            want = want * lam[i]
        env.eq('Moore determinant = product of eigenvalues', [d], [want + 1 if env.twin else want])
    elif kind == 'Moore_nonhermitian':
        A = env.qarr('a', (n, n))
        An = cm.as_nested(env, A)
        d2 = sum((x * x for x in [An[0][1][0] - An[1][0][0], An[0][1][1] + An[1][0][1], An[0][1][2] + An[1][0][2], An[0][1][3] + An[1][0][3]]), 0)
        tot = cm.frob2(env, A)
        env.assume(d2 >= (Fraction(1, 10 ** 6) if env.symbolic else 1e-6) * tot, 'non-Hermitian by a relative margin 1e-3')
        env.assume(tot >= (Fraction(1, 10 ** 6) if env.symbolic else 1e-6), 'A not tiny')
        env.raises('Moore determinant refused for a non-Hermitian matrix', lambda: Ut.det(A, 'Moore'), (ValueError,))
    elif kind == 'Study':
        A = env.qarr('a', (n, n))
        env.raises('Study determinant: NotImplementedError', lambda: Ut.det(A, 'Study'), (NotImplementedError,))
    elif kind == 'unknown':
        A = env.qarr('a', (n, n))
        for k in ('moore', 'dieudonne', 'Det', '', 'study'):
            env.raises('unknown determinant type %r rejected' % k, lambda k=k: Ut.det(A, k), (ValueError,))
    elif kind == 'nonsquare':
        A = env.qarr('a', (n, n + 1))
        for k in ('Moore', 'Dieudonne', 'Study'):
            env.raises('non-square input rejected (%s)' % k, lambda k=k: Ut.det(A, k), (ValueError,))


def hermitian_test(env, n, case):
    Ut = env.R.utils
    if case == 'hermitian':
        A = env.qherm('a', n)
        env.holds('an exactly Hermitian matrix is recognised', bool(Ut.ishermitian(env.twist(A))) is True)
    elif case == 'margin':
        A = env.qarr('a', (n, n))
        An = cm.as_nested(env, A)
        d2 = sum((x * x for x in [An[0][1][0] - An[1][0][0], An[0][1][1] + An[1][0][1], An[0][1][2] + An[1][0][2], An[0][1][3] + An[1][0][3]]), 0)
        tot = cm.frob2(env, A)
        env.assume(d2 >= (Fraction(1, 10 ** 6) if env.symbolic else 1e-6) * tot, 'non-Hermitian by a relative margin 1e-3')
        env.assume(tot >= (Fraction(1, 10 ** 6) if env.symbolic else 1e-6), 'A not tiny')
        env.holds('a matrix that is non-Hermitian by a margin is rejected', bool(Ut.ishermitian(A)) is False)
    elif case == 'zero':
        A = env.qzeros((n, n))
        env.holds('the zero matrix is Hermitian', bool(Ut.ishermitian(A)) is True)
    elif case == 'nonsquare':
        A = env.qarr('a', (n, n + 1))
        env.raises('non-square input rejected', lambda: Ut.ishermitian(A), (ValueError,))


META = {
    'explanation': 'bounded symbolic execution of rank, quat_null_space and its wrappers, det and ishermitian with the Q-SVD / eigen-solver replaced by contract '
                   'stubs (arbitrary symbolic factors, singular values sorted and non-negative): every threshold path (how many singular values pass) is '
                   'enumerated by feasibility',
    'outside_claim': ['linear independence of the returned null vectors for nullity >= 2, multiplicativity of the determinant, rank under multiplication by '
                      'invertible matrices: statements about LAPACK\'s bases / singular values (see C05)',
                      'the default thresholds of rank (eps*max(m,n)*s_1) and of the null-space routines (1e-10*s_1) differ: the "n - rank columns" clause is '
                      'decided for equal thresholds; with the defaults a singular value in between is counted by rank but treated as zero by the null space',
                      'shapes > 3', 'rounding'],
    'assumptions': ['classical_qsvd_full / quaternion_eigenvalues replaced by contract stubs', 'floats modelled as exact reals'],
}


def cells():
    out = []
    for (m, n) in [(1, 1), (2, 2), (2, 3), (3, 2), (3, 3), (1, 3)]:
        out.append(Cell('rank[%dx%d]' % (m, n), 'c11:rank_glue', dict(m=m, n=n), domain='z', timeout_s=600, twin=False,
                        bounds='singular values symbolic, sorted, >= 0'))
    out.append(Cell('rank[2x3,tol]', 'c11:rank_glue', dict(m=2, n=3, explicit_tol=True), domain='z', timeout_s=600, twin=False, bounds='explicit symbolic tol'))
    for (m, n) in [(1, 1), (2, 2), (2, 3), (3, 2), (3, 3)]:
        for side in ('right', 'left'):
            out.append(Cell('null[%dx%d,%s]' % (m, n, side), 'c11:null_glue', dict(m=m, n=n, side=side), domain='z', timeout_s=600,
                            twin=False, bounds='U, V, sigma, rtol symbolic'))
    out.append(Cell('null[3x2,right,kernel]', 'c11:null_glue', dict(m=3, n=2, side='right', via='kernel'), domain='z', twin=False, bounds='quat_kernel alias'))
    out.append(Cell('null[2x3,right,wrapper]', 'c11:null_glue', dict(m=2, n=3, side='right', via='wrapper'), domain='z', twin=False, bounds='quat_null_right'))
    out.append(Cell('null[2x3,left,wrapper]', 'c11:null_glue', dict(m=2, n=3, side='left', via='wrapper'), domain='z', twin=False, bounds='quat_null_left'))
    out.append(Cell('null_bad_side', 'c11:null_bad_side', {}, domain='z', twin=False, bounds='four wrong spellings'))
    for n in (1, 2, 3):
        out.append(Cell('det[Dieudonne,n=%d]' % n, 'c11:det_glue', dict(n=n, kind='Dieudonne'), domain='z', twin=(n == 2), bounds='singular values symbolic'))
        out.append(Cell('det[Moore,n=%d]' % n, 'c11:det_glue', dict(n=n, kind='Moore'), domain='a', timeout_s=600, twin=(n == 2), bounds='Hermitian A, eigenvalues symbolic'))
    out.append(Cell('det[Dieudonné,n=2]', 'c11:det_glue', dict(n=2, kind='Dieudonné'), domain='z', twin=False, bounds='accented spelling'))
    for kind in ('Moore_nonhermitian', 'Study', 'unknown', 'nonsquare'):
        out.append(Cell('det[%s]' % kind, 'c11:det_glue', dict(n=2, kind=kind), domain='a', timeout_s=600, twin=False, bounds='2x2 symbolic'))
    for n, case in [(1, 'hermitian'), (2, 'hermitian'), (3, 'hermitian'), (2, 'margin'), (2, 'zero'), (2, 'nonsquare')]:
        out.append(Cell('ishermitian[%s,n=%d]' % (case, n), 'c11:hermitian_test', dict(n=n, case=case), domain='a', timeout_s=600, twin=False,
                        bounds='symbolic entries'))
    return out
