"""C06 - quaternion QR: the glue around the LAPACK call (thin / wide extraction, contraction)."""
from symex.runner import Cell
from . import common as cm
from .c02 import phi_interleaved, tolists
from .c07 import cm_matmul_nested
from .c08 import _herm_nested

PROP = 'C06'


def qr_glue(env, m, n):
    Qs = env.R.qsvd
    p = min(m, n)
    if not env.symbolic:
        # real library, real LAPACK: the property-level clauses on the matrix X = Q_q R_q of this model
        Qq = env.qarr('q', (m, m))
        Rq = env.qarr('r', (m, n), lambda idx: 'full' if idx[1] >= idx[0] else 'zero')
        X = env.R.utils.quat_matmat(Qq, Rq)
        Q, R = Qs.qr_qua(X)
        env.holds('shapes', tuple(Q.shape) == (m, p) and tuple(R.shape) == (p, n))
        if m >= n:
            env.eq('A = Q R', cm.as_nested(env, env.R.utils.quat_matmat(Q, R)), cm.as_nested(env, X), tol=1e-8)
        return
    Qq = env.qarr('q', (m, m))
    Rq = env.qarr('r', (m, n), lambda idx: 'full' if idx[1] >= idx[0] else 'zero')
    Qn, Rn = cm.as_nested(env, Qq), cm.as_nested(env, Rq)
    Xn = cm_matmul_nested(Qn, Rn)
    X = cm.qmat_from_nested(env, Xn)
    seen = {}

    def qr_stub(a, *args, **kw):
        if args or kw:
            from symex.scalar import Unsupported
            raise Unsupported('scipy.linalg.qr called with options the contract stub does not model: %r %r' % (args, kw))
        seen['a'] = a
        return env.rconst_obj(phi_interleaved(env, Qn)), env.rconst_obj(phi_interleaved(env, Rn))
    env.stub_scipy_linalg('qr', qr_stub)
    Q, R = Qs.qr_qua(env.twist(X))
    env.holds('LAPACK QR called once', 'a' in seen)
    env.eq('LAPACK is handed the real embedding of the input', tolists(seen['a']), phi_interleaved(env, Xn))
    env.holds('Q is m x min(m,n), R is min(m,n) x n', tuple(Q.shape) == (m, p) and tuple(R.shape) == (p, n))
    Qo, Ro = cm.as_nested(env, Q), cm.as_nested(env, R)
    env.eq('Q = leading min(m,n) columns of the factor', Qo, [row[:p] for row in Qn])
    env.eq('R = leading min(m,n) rows of the factor', Ro, Rn[:p])
    env.eq('Q R = A (given a structured factorisation)', cm_matmul_nested(Qo, Ro), Xn)
    for i in range(p):
        for j in range(n):
            if j < i:
                env.eq('R strictly lower part is zero', Ro[i][j], [0, 0, 0, 0])


META = {
    'explanation': 'bounded symbolic execution of qr_qua with scipy.linalg.qr replaced by a structured contract stub (an arbitrary symbolic quaternion '
                   'factorisation Q_q R_q in real-embedded form): decides the embedding handed to LAPACK, the thin / wide extraction, the contraction, '
                   'the output shapes and Q R = A for tall, square and wide shapes',
    'outside_claim': ['that LAPACK\'s real QR of the embedding is quaternion-structured (sign pattern of R\'s diagonal inside each 4x4 block): this decides '
                      'orthonormality of Q and A = QR for wide and rank-deficient input and cannot be encoded (compiled Fortran; not fixed by its contract). '
                      'Observed with the real library while replaying witness points: qr_qua does NOT reproduce A for wide input (m < n) and returns a '
                      'non-orthonormal Q for rank-deficient tall input - see DESIGN.md section 6',
                      'shapes > 3', 'rounding'],
    'assumptions': ['scipy.linalg.qr returns the real embedding of a quaternion factorisation (stub)', 'floats modelled as exact reals'],
}


def cells():
    out = []
    for m in (1, 2, 3):
        for n in (1, 2, 3):
            out.append(Cell('qr_glue[%dx%d]' % (m, n), 'c06:qr_glue', dict(m=m, n=n), domain='z', timeout_s=600,
                            twin=((m, n) in [(2, 3), (3, 2)]), bounds='Q_q %dx%d and upper-trapezoidal R_q %dx%d fully symbolic' % (m, m, m, n)))
    return out
