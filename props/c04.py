"""C04 - Q-GMRES returns a true solution and truthful convergence information."""
from fractions import Fraction

from symex.runner import Cell
from . import common as cm

PROP = 'C04'


def _A(env, n, cls):
    """matrix classes of the property; entries symbolic unless the class fixes them"""
    if cls == 'full':
        return env.qarr('a', (n, n))
    if cls == 'real':
        return env.qarr('a', (n, n), 'real')
    if cls == 'complex':
        return env.qarr('a', (n, n), 'complex')
    if cls == 'identity':
        return cm.qmat_from_nested(env, cm.eye_nested(n))
    if cls == 'diag_1_2':            # concrete diag(1, 2): two distinct eigenvalues, so the first restart cycle (m = 1) is inexact for generic b
        return cm.qmat_from_nested(env, [[[(i + 1) if i == j else 0, 0, 0, 0] for j in range(n)] for i in range(n)])
    if cls == 'scaled_identity':
        c = env.real('c')
        env.assume(c >= Fraction(1, 10 ** 6) if env.symbolic else c >= 1e-6, 'c >= 1e-6')
        env.assume(c <= 10 ** 6, 'c <= 1e6')
        return cm.qmat_from_nested(env, [[[c if i == j else 0, 0, 0, 0] for j in range(n)] for i in range(n)])
    if cls == 'diag_repeated':
        q = env.quat('d')
        return cm.qmat_from_nested(env, [[[q.w, q.x, q.y, q.z] if i == j else [0, 0, 0, 0] for j in range(n)] for i in range(n)])
    if cls == 'diag':
        return env.qarr('a', (n, n), lambda idx: 'full' if idx[0] == idx[1] else 'zero')
    if cls == 'diag_real':
        return env.qarr('a', (n, n), lambda idx: 'real' if idx[0] == idx[1] else 'zero')
    if cls == 'upper':
        return env.qarr('a', (n, n), lambda idx: 'real' if idx[0] <= idx[1] else 'zero')
    if cls == 'hermitian_real':
        return env.qherm('a', n, 'real')
    if cls == 'rank_one_update':       # I + u v^H with real u, v
        u = env.rarr('u', (n,))
        v = env.rarr('v', (n,))
        return cm.qmat_from_nested(env, [[[(1 if i == j else 0) + u[i] * v[j], 0, 0, 0] for j in range(n)] for i in range(n)])
    if cls == 'unitary_diag':          # diag of unit quaternions given without square roots: (p^2)/|p|^2
        rows = []
        for i in range(n):
            p = env.quat('p%d' % i)
            n2 = p.w * p.w + p.x * p.x + p.y * p.y + p.z * p.z
            env.assume(n2 >= Fraction(1, 100) if env.symbolic else n2 >= 0.01, '|p|^2 >= 0.01')
            sq = cm.qmul_c([p.w, p.x, p.y, p.z], [p.w, p.x, p.y, p.z])
            rows.append([[x / n2 for x in sq] if i == j else [0, 0, 0, 0] for j in range(n)])
        return cm.qmat_from_nested(env, rows)
    raise ValueError(cls)


def _nonsingular(env, A, n, cls):
    """assume the class's nonsingularity in a solver-friendly way"""
    An = cm.as_nested(env, A)
    lo = Fraction(1, 10 ** 4) if env.symbolic else 1e-4
    if n == 1 or cls in ('diag', 'diag_real', 'diag_repeated', 'upper'):
        for i in range(n):
            env.assume(sum((x * x for x in An[i][i]), 0) >= lo, '|a_ii|^2 >= 1e-4')
    elif cls in ('real', 'hermitian_real') and n == 2:
        det = An[0][0][0] * An[1][1][0] - An[0][1][0] * An[1][0][0]
        env.assume(det * det >= lo, 'det^2 >= 1e-4')
    elif cls == 'rank_one_update':
        s = 1
        for i in range(n):
            s = s + An[i][i][0] - 1
        env.assume(s * s >= lo, '(1 + v^T u)^2 >= 1e-4')


def gmres(env, n, cls, bkind='full', sparse=False, prec=None, max_iter=None, tol='1e-6'):
    Sv = env.R.solver
    A = _A(env, n, cls)
    if bkind == 'scaled_ones':       # b = beta (1, ..., 1)^T, beta symbolic: a one-parameter family on which ||b|| ranges over (0, inf)
        beta = env.real('beta')
        b = cm.qmat_from_nested(env, [[[beta, 0, 0, 0]] for _ in range(n)])
    else:
        b = env.qarr('b', (n, 1), bkind)
    _nonsingular(env, A, n, cls)
    tolv = Fraction(tol) if env.symbolic else float(Fraction(tol))
    solver = Sv.QGMRESSolver(tol=float(Fraction(tol)) if not env.symbolic else tolv, max_iter=max_iter, preconditioner=prec)
    Ain = env.sparse(A) if sparse else A
    x, info = solver.solve(env.twist(Ain) if not sparse else Ain, b)
    env.holds('solution shape n x 1', tuple(x.shape) == (n, 1))
    Ax = cm.matmul_oracle(env, A, x)
    bn = cm.as_nested(env, b)
    r2 = 0
    for i in range(n):
        for c in range(4):
            d = Ax[i][0][c] - bn[i][0][c]
            r2 = r2 + d * d
    b2 = cm.frob2(env, b)
    res = info['residual']
    # truthful residual: info.residual * (||b|| + 1e-30) = ||Ax - b||
    nb = env.sqrt(b2)
    t30 = Fraction(1e-30) if env.symbolic else 1e-30      # the code's float literal, exactly
    env.eq('info.residual is ||Ax-b||/||b|| of the returned x', [(res * (nb + t30)) ** 2], [r2])
    env.eq('info.residual_true = info.residual', [info['residual_true']], [res])
    if info['converged']:
        env.le('converged is reported only for a small true residual (<= 10 tol)', r2, (10 * tolv) ** 2 * b2, abs_slack=0.0)
    if max_iter is None or max_iter >= n:
        env.le('full Krylov space: ||Ax-b|| <= tol ||b|| at return', r2, tolv * tolv * b2 * (1 + Fraction(1, 10 ** 6) if env.symbolic else 1.000001), abs_slack=1e-30)
    hist = [h[2] for h in info['residual_history']]
    for k in range(1, len(hist)):
        env.le('residual history is non-increasing (cycle %d)' % k, hist[k], hist[k - 1], slack=1e-6)
    env.holds('iterations reported within 1..n', 1 <= info['iterations'] <= n)


def gmres_zero_rhs(env, n, cls):
    Sv = env.R.solver
    A = _A(env, n, cls)
    _nonsingular(env, A, n, cls)
    b = env.qzeros((n, 1))
    solver = Sv.QGMRESSolver(tol=Fraction(1, 10 ** 6) if env.symbolic else 1e-6)
    x, info = solver.solve(A, b)
    xf = cm.comps(env, x)
    if env.symbolic:
        env.eq('b = 0 gives x = 0', list(xf.reshape(-1)), [0] * (4 * n))
    else:
        import numpy as np
        env.holds('b = 0 gives x = 0 (finite zeros, no NaN)', bool(np.all(xf == 0)))


def precond_agree(env, n, cls):
    """preconditioning changes the iteration count, never the solution: both satisfy the system"""
    Sv = env.R.solver
    A = _A(env, n, cls)
    b = env.qarr('b', (n, 1), 'real' if cls in ('real', 'upper', 'hermitian_real', 'diag_real') else ('complex' if cls == 'complex' else 'full'))
    _nonsingular(env, A, n, cls)
    tolv = Fraction(1, 10 ** 6) if env.symbolic else 1e-6
    xs = []
    for prec in (None, 'left_lu'):
        solver = Sv.QGMRESSolver(tol=tolv, preconditioner=prec)
        x, info = solver.solve(A, b)
        xs.append(x)
        Ax = cm.matmul_oracle(env, A, x)
        bn = cm.as_nested(env, b)
        r2 = 0
        for i in range(n):
            for c in range(4):
                d = Ax[i][0][c] - bn[i][0][c]
                r2 = r2 + d * d
        env.le('x_%s solves the system to the tolerance' % (prec or 'none'), r2, (10 * tolv) ** 2 * cm.frob2(env, b), abs_slack=1e-30)


def precond_system(env, n, kind='real'):
    """left LU preconditioning turns A x = b into an equivalent system: with b := A x0 for a symbolic x0,
    the matrix and right-hand side handed to the Krylov kernel satisfy A~ x0 = b~ on every pivot path
    (the same M^-1 = U^-1 L^-1 P must be applied to both)"""
    Sv = env.R.solver
    A = env.qarr('a', (n, n), kind)
    x0 = env.qarr('x', (n, 1), kind)
    b = cm.qmat_from_nested(env, cm.matmul_oracle(env, A, x0))
    if not env.symbolic:
        solver = Sv.QGMRESSolver(preconditioner='left_lu')
        x, info = solver.solve(A, b)
        if info['converged']:
            Ax = cm.matmul_oracle(env, A, x)
            bn = cm.as_nested(env, b)
            r2 = sum(((u - v) ** 2 for ru, rv in zip(Ax, bn) for eu, ev in zip(ru, rv) for u, v in zip(eu, ev)), 0)
            env.le('left_lu: a converged run solves the ORIGINAL system (||Ax-b|| <= 1e-4 ||b||)', r2, 1e-8 * cm.frob2(env, b), abs_slack=1e-20)
        return
    seen = []
    solver = Sv.QGMRESSolver(preconditioner='left_lu')

    def rec(A0, A1, A2, A3, b0, b1, b2, b3, tol, maxit):
        seen.append(((A0, A1, A2, A3), (b0, b1, b2, b3)))
        z = env.np.zeros((n, 1))
        return z, z, z, z, 0.0, z, z, z, z, 1, []
    solver._GMRESQsparse = rec

    # the two substitutions are replaced by exact ones (their own accuracy is C16): what is decided here is the
    # glue - the permutation, L and U of ONE factorisation applied consistently to A and to b
    def exact_solve(T, B, lower):
        Tn, Bn = cm.as_nested(env, T), cm.as_nested(env, B)
        k = len(Bn[0])
        X = [[None] * k for _ in range(n)]
        order = range(n) if lower else range(n - 1, -1, -1)
        for i in order:
            d = Tn[i][i]
            d2 = sum((v * v for v in d), 0)
            dinv = [d[0] / d2, -d[1] / d2, -d[2] / d2, -d[3] / d2]
            for c in range(k):
                acc = list(Bn[i][c])
                for j in (range(i) if lower else range(i + 1, n)):
                    t = cm.qmul_c(Tn[i][j], X[j][c])
                    acc = [a - b_ for a, b_ in zip(acc, t)]
                X[i][c] = cm.qmul_c(dinv, acc)
        return cm.qmat_from_nested(env, X)
    oL, oU = Sv._solve_lower_triangular_quat, Sv._solve_upper_triangular_quat
    Sv._solve_lower_triangular_quat = lambda L, B: exact_solve(L, B, True)
    Sv._solve_upper_triangular_quat = lambda U_, B: exact_solve(U_, B, False)
    try:
        solver.solve(env.twist(A), b)
    finally:
        Sv._solve_lower_triangular_quat, Sv._solve_upper_triangular_quat = oL, oU
    (A0, A1, A2, A3), (b0, b1, b2, b3) = seen[0]
    At = [[[A0[i, j], A1[i, j], A2[i, j], A3[i, j]] for j in range(n)] for i in range(n)]
    bt = [[[b0[i, 0], b1[i, 0], b2[i, 0], b3[i, 0]]] for i in range(n)]
    from .c07 import cm_matmul_nested
    env.eq('preconditioned system is equivalent: A~ x0 = b~ (same M^-1 on both sides)', cm_matmul_nested(At, cm.as_nested(env, x0)), bt)


META = {
    'explanation': 'bounded symbolic execution of QGMRESSolver.solve / _GMRESQsparse with its kernels (timesQsparse, normQsparse, Hess_QR_ggivens, '
                   'ggivens, GRSGivens, A2A0123, UtriangleQsparse, absQsparse, dotinvQsparse) and the LU preconditioner path; the internal fault paths '
                   '(lucky breakdown at an Arnoldi step, zero pivot in the preconditioner, zero diagonal in the triangular solve) are branches of the '
                   'symbolic run, reached by feasibility, not by constructed inputs',
    'outside_claim': ['n >= 3; for n = 2 a fully symbolic quaternion A (the listed structured classes and real-axis A are covered, with fully symbolic b)',
                      'rounding: in exact arithmetic the last cycle always ends in the breakdown branch; in floating point this happens when rounding cooperates',
                      'symbolic tolerances (tol is concrete per cell)'],
    'assumptions': ['floats modelled as exact reals', 'nonsingularity of A is assumed through |a_ii|^2 >= 1e-4 / det^2 >= 1e-4 for the class'],
}


def cells():
    out = []
    big = dict(domain='a', timeout_s=2400, q_timeout_ms=10000, ob_timeout_ms=60000, max_paths=3000)
    # n = 1: A and b symbolic (4+1, 2+2 components in quick; all 8 components in thorough)
    for cls, bk, tier in [('full', 'real', 'thorough'), ('complex', 'complex', 'quick'), ('full', 'full', 'thorough'), ('complex', 'full', 'thorough')]:
        for sparse, prec, mi in [(False, None, None), (True, None, None), (False, 'left_lu', None), (False, None, 1), (True, 'left_lu', 1)]:
            if tier == 'thorough' and (sparse or mi):
                continue
            if cls == 'full' and bk == 'real' and (sparse or mi):
                continue
            ctier = 'thorough' if (prec == 'left_lu' and not sparse) else tier
            out.append(Cell('gmres[n=1,A %s,b %s,%s,prec=%s,max_iter=%s]' % (cls, bk, 'sparse' if sparse else 'dense', prec, mi), 'c04:gmres',
                            dict(n=1, cls=cls, bkind=bk, sparse=sparse, prec=prec, max_iter=mi), tier=ctier,
                            twin=False,
                            bounds='A 1x1 (%s) and b (%s) symbolic, |a|^2 >= 1e-4; all breakdown / degenerate-rotation paths' % (cls, bk), **big))
    for tol, name in [('1/100', '1e-2'), ('1/1000000000000', '1e-12')]:
        out.append(Cell('gmres[n=1,A complex,b complex,tol=%s]' % name, 'c04:gmres', dict(n=1, cls='complex', bkind='complex', tol=tol), twin=False,
                        bounds='A 1x1, b symbolic (complex subfield); tol %s' % name, **big))
    for cls, bk, tier in [('identity', 'full', 'quick'), ('scaled_identity', 'full', 'quick'), ('diag_1_2', 'real', 'thorough'), ('diag_repeated', 'real', 'thorough'),
                          ('diag_real', 'real', 'thorough'), ('diag_repeated', 'full', 'thorough'), ('upper', 'real', 'thorough'),
                          ('hermitian_real', 'real', 'thorough'), ('real', 'real', 'thorough'), ('rank_one_update', 'real', 'thorough'),
                          ('unitary_diag', 'real', 'thorough')]:
        out.append(Cell('gmres[n=2,%s,b %s]' % (cls, bk), 'c04:gmres', dict(n=2, cls=cls, bkind=bk), tier=tier,
                        twin=False,
                        bounds='A 2x2 of class %s, b %s symbolic; default iteration cap; all breakdown paths' % (cls, bk), **big))
    for mi in (1, None):
        out.append(Cell('gmres[n=2,diag(1,2),b=beta(1,1),max_iter=%s]' % mi, 'c04:gmres', dict(n=2, cls='diag_1_2', bkind='scaled_ones', max_iter=mi), tier='quick', twin=(mi == 1), twin_timeout_s=300,
                        bounds='A = diag(1, 2) concrete, b = beta (1,1)^T with beta symbolic (||b|| from 0 to inf): the first restart cycle is inexact', **big))
    for cls, mi, tier in [('identity', 1, 'quick'), ('scaled_identity', 1, 'quick'), ('diag_1_2', 1, 'thorough'), ('diag_real', 1, 'thorough'), ('real', 1, 'thorough'), ('identity', 0, 'quick')]:
        out.append(Cell('gmres[n=2,%s,max_iter=%d]' % (cls, mi), 'c04:gmres', dict(n=2, cls=cls, bkind='real', max_iter=mi), tier=tier,
                        twin=False, bounds='iteration cap %d' % mi, **big))
    for cls, tier in [('identity', 'quick'), ('diag_real', 'thorough')]:
        out.append(Cell('gmres[n=2,%s,sparse]' % cls, 'c04:gmres', dict(n=2, cls=cls, bkind='real', sparse=True), tier=tier, twin=False,
                        bounds='sparse storage of A', **big))
    for n, cls in [(1, 'full'), (2, 'identity'), (2, 'real')]:
        out.append(Cell('zero_rhs[n=%d,%s]' % (n, cls), 'c04:gmres_zero_rhs', dict(n=n, cls=cls), domain='a', timeout_s=600, twin=False,
                        events='violation', bounds='b = 0'))
    for n, tier in [(2, 'quick'), (3, 'quick')]:
        out.append(Cell('precond_system[n=%d,real]' % n, 'c04:precond_system', dict(n=n, kind='real'), tier=tier, twin=False, events='outside',
                        bounds='A, x0 real-axis symbolic, all pivot paths of the LU preconditioner; Krylov kernel replaced by a recorder', **big))
    for n, cls, tier in [(1, 'complex', 'thorough'), (2, 'identity', 'quick'), (2, 'upper', 'thorough'), (2, 'real', 'thorough')]:
        out.append(Cell('precond_agree[n=%d,%s]' % (n, cls), 'c04:precond_agree', dict(n=n, cls=cls), tier=tier, twin=False,
                        bounds='both preconditioner settings on the same symbolic system', **big))
    return out
