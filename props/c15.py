"""C15 - matrix norms are genuine, mutually consistent norms."""
from symex.runner import Cell
from . import common as cm

PROP = 'C15'


def frob_agree(env, m, n, vector=False):
    U = env.R.utils
    A = env.qarr('a', (m, n))
    Ai = env.twist(A)
    want = cm.frob2(env, A)
    Af = cm.comps(env, Ai)
    vals = {
        'matrix_norm(A)': U.matrix_norm(Ai),
        "matrix_norm(A,'fro')": U.matrix_norm(Ai, 'fro'),
        "matrix_norm(A,'F')": U.matrix_norm(Ai, 'F'),
        'matrix_norm(A,None)': U.matrix_norm(Ai, None),
        'quat_frobenius_norm(A)': U.quat_frobenius_norm(Ai),
        'quat_frobenius_norm(sparse A)': U.quat_frobenius_norm(env.sparse(Ai)),
        'normQ(A)': U.normQ(Ai),
        'normQsparse(components)': U.normQsparse(Af[..., 0], Af[..., 1], Af[..., 2], Af[..., 3]),
        'normQsparse(sparse components)': U.normQsparse(env.csr(Af[..., 0]), env.csr(Af[..., 1]), env.csr(Af[..., 2]), env.csr(Af[..., 3])),
        'tensor_frobenius_norm(A)': env.R.tensor.tensor_frobenius_norm(Ai),
    }
    if n == 1:
        # the 1-D (vector) branch of the legacy component norm
        vals['normQsparse(1-D components)'] = U.normQsparse(Af[:, 0, 0], Af[:, 0, 1], Af[:, 0, 2], Af[:, 0, 3])
    for k, v in vals.items():
        env.eq('%s^2 = sum |a_ij|^2' % k, v ** 2, want)
        env.le('%s >= 0' % k, 0, v)
    # absolute homogeneity
    c = env.real('c')
    cA = cm.qmat_from_nested(env, [[[c * x for x in e] for e in row] for row in cm.as_nested(env, A)])
    env.eq('||cA||_F^2 = c^2 ||A||_F^2', U.matrix_norm(cA) ** 2, c * c * want)
    # entrywise modulus helpers
    q = A[0, 0]
    env.eq('quat_abs_scalar(q)^2 = |q|^2', U.quat_abs_scalar(q) ** 2, q.w * q.w + q.x * q.x + q.y * q.y + q.z * q.z)


def _mods(env, A, m, n):
    return [[env.sqrt(sum((x * x for x in e), 0)) for e in row] for row in cm.as_nested(env, A)]


def induced(env, m, n, kind='full'):
    U = env.R.utils
    A = env.qarr('a', (m, n), kind)
    Ai = env.twist(A)
    mod = _mods(env, A, m, n)
    cols = [sum((mod[i][j] for i in range(m)), 0) for j in range(n)]
    rows = [sum((mod[i][j] for j in range(n)), 0) for i in range(m)]
    n1 = U.matrix_norm(Ai, 1)
    env.is_max('||A||_1 = max column sum of moduli', n1, cols)
    ninf = U.matrix_norm(A, env.np.inf)
    env.is_max('||A||_inf = max row sum of moduli', ninf, rows)
    ninf2 = U.matrix_norm(A, 'inf')
    env.eq("ord='inf' spelling agrees", [ninf2], [ninf])
    env.eq('induced_matrix_norm_1 agrees with dispatcher', [U.induced_matrix_norm_1(A)], [U.matrix_norm(A, 1)])
    env.eq('induced_matrix_norm_inf agrees with dispatcher', [U.induced_matrix_norm_inf(A)], [ninf])
    AH = U.quat_hermitian(A)
    env.eq('||A^H||_1 = ||A||_inf', [U.matrix_norm(AH, 1)], [ninf])


def induced_laws(env, law):
    """norm axioms for the induced norms on 1x1 / tiny shapes (sqrt atoms, 60 s cap)"""
    U = env.R.utils
    if law == 'homog':
        A = env.qarr('a', (1, 2))
        c = env.real('c')
        cA = cm.qmat_from_nested(env, [[[c * x for x in e] for e in row] for row in cm.as_nested(env, A)])
        l = U.matrix_norm(env.twist(cA), env.np.inf)
        r = U.matrix_norm(A, env.np.inf)
        env.eq('||cA||_inf^2 = c^2 ||A||_inf^2', [l ** 2], [c * c * r ** 2])
    elif law == 'triangle':
        A = env.qarr('a', (1, 1))
        B = env.qarr('b', (1, 1))
        S = cm.qmat_from_nested(env, [[[x + y for x, y in zip(cm.as_nested(env, A)[0][0], cm.as_nested(env, B)[0][0])]]])
        env.le('||A+B||_1 <= ||A||_1 + ||B||_1', U.matrix_norm(env.twist(S), 1), U.matrix_norm(A, 1) + U.matrix_norm(B, 1))
    elif law == 'submult':
        A = env.qarr('a', (1, 1))
        B = env.qarr('b', (1, 1))
        P = U.quat_matmat(A, B)
        env.eq('||AB||_1 = ||A||_1 ||B||_1 for 1x1', [U.matrix_norm(env.twist(P), 1) ** 2], [U.matrix_norm(A, 1) ** 2 * U.matrix_norm(B, 1) ** 2])


def frob_laws(env, m, n, law):
    U = env.R.utils
    A = env.qarr('a', (m, n))
    B = env.qarr('b', (m, n))
    if law == 'triangle':
        # ||A+B||^2 <= (||A|| + ||B||)^2  <=>  <A,B> <= ||A|| ||B||, implied by <A,B>^2 <= ||A||^2 ||B||^2
        S = cm.qmat_from_nested(env, [[[x + y for x, y in zip(e1, e2)] for e1, e2 in zip(r1, r2)]
                                      for r1, r2 in zip(cm.as_nested(env, A), cm.as_nested(env, B))])
        s2 = U.matrix_norm(env.twist(S)) ** 2
        a2, b2 = U.matrix_norm(A) ** 2, U.matrix_norm(B) ** 2
        cross = (s2 - a2 - b2) / 2
        env.le('(<A,B>)^2 <= ||A||_F^2 ||B||_F^2  (triangle inequality, squared form)', cross * cross, a2 * b2)


def dispatch(env, ordv):
    U = env.R.utils
    A = env.qarr('a', (2, 2))
    if ordv == 'symbolic-number':
        o = env.real('ord')
        old = env.R.qsvd.classical_qsvd_full
        if env.symbolic:
            env.R.qsvd.classical_qsvd_full = lambda X: (None, env.rarr('s', (2,)), None)
        try:
            r = U.matrix_norm(A, o)
        except ValueError:
            env.holds('ValueError only for a number other than 1, 2', (o != 1) & (o != 2) if env.symbolic else (o != 1 and o != 2))
            return
        finally:
            env.R.qsvd.classical_qsvd_full = old
        env.holds('a value is returned only for ord in {1, 2}', (o == 1) | (o == 2) if env.symbolic else (o == 1 or o == 2))
        return
    env.raises('unknown ord %r rejected with ValueError' % (ordv,), lambda: U.matrix_norm(A, ordv), (ValueError,))


def spectral(env, m, n):
    """spectral norm = largest singular value returned by the Q-SVD (stubbed)"""
    U = env.R.utils
    A = env.qarr('a', (m, n))
    p = min(m, n)
    if env.symbolic:
        s = env.rarr('s', (p,))
        for i in range(p):
            env.assume(s[i] >= 0, 's >= 0')
        old = env.R.qsvd.classical_qsvd_full
        seen = []

        def stub(X):
            seen.append(X)
            return None, s.copy(), None
        env.R.qsvd.classical_qsvd_full = stub
        # if the routine goes to LAPACK directly, it gets arbitrary values too (the clause below then fails)
        env.stub_linalg('svd', lambda a, *args, **kw: env.rarr('lapack_s', (min(a.shape),)) if kw.get('compute_uv') is False
                        else (None, env.rarr('lapack_s', (min(a.shape),)), None))
        try:
            r = U.matrix_norm(env.twist(A), 2)
            r2 = U.spectral_norm_2(A)
        finally:
            env.R.qsvd.classical_qsvd_full = old
        env.holds('Q-SVD called on the matrix itself', len(seen) == 2 and seen[1] is A)
        env.is_max('||A||_2 = largest singular value', r, list(s))
        env.eq('dispatcher and spectral_norm_2 agree', [r], [r2])
    else:
        import numpy as np
        r = U.matrix_norm(A, 2)
        s = np.linalg.svd(U.real_expand(A), compute_uv=False)
        env.eq('||A||_2 = largest singular value (LAPACK on the real embedding)', [r], [s[0]])


def dual(env, m, n):
    U = env.R.utils
    A = env.qarr('a', (m, n))
    Af = cm.comps(env, A)
    d1 = U.normQ(env.twist(A), 'd')
    d2 = U.normQsparse(Af[..., 0], Af[..., 1], Af[..., 2], Af[..., 3], 'd')
    tot = 0
    for i in range(m):
        for j in range(n):
            a1, a2, a3 = Af[i, j, 1], Af[i, j, 2], Af[i, j, 3]
            for t in (2 * a1 - a2 - a3, 2 * a2 - a3 - a1, 2 * a3 - a1 - a2):
                tot = tot + t * t
    env.eq("normQ(A,'d')^2 = documented dual-norm formula", [(3 * d1) ** 2], [tot])
    env.eq("normQsparse(...,'d') agrees with normQ(A,'d')", [d2 ** 2], [d1 ** 2])


META = {
    'explanation': 'bounded symbolic execution of all norm entry points; Frobenius clauses are polynomial identities on squared norms (z3, reals); '
                   'induced norms are decided with one sqrt atom per entry and enumeration of the comparison paths of the max loops',
    'outside_claim': ['inequalities that involve true singular values (||A||_2 <= ||A||_F <= sqrt(rank)||A||_2, ||A||_2^2 <= ||A||_1 ||A||_inf): LAPACK',
                      'the spectral norm beyond "largest value returned by the Q-SVD" (Q-SVD replaced by a contract stub)',
                      'triangle inequality / sub-multiplicativity of induced norms beyond 1x1; of the Frobenius norm beyond the listed shapes',
                      "legacy options '1', '2' and other of normQsparse / normQ", 'rounding'],
    'assumptions': ['floats modelled as exact reals', 'Q-SVD stub returns arbitrary non-negative singular values (spectral cell only)'],
}


def cells():
    out = []
    for sh in [(1, 1), (2, 1), (1, 3), (2, 2), (3, 2), (3, 3)]:
        out.append(Cell('frob_agree[%dx%d]' % sh, 'c15:frob_agree', dict(m=sh[0], n=sh[1]), domain='z', twin=(sh == (2, 2)),
                        bounds='A %dx%d and scalar c symbolic' % sh))
    for sh, kind, tier in [((1, 1), 'full', 'quick'), ((1, 2), 'full', 'quick'), ((2, 1), 'full', 'quick'), ((2, 2), 'full', 'quick'),
                           ((2, 3), 'complex', 'quick'), ((3, 2), 'real', 'quick'), ((2, 3), 'full', 'thorough'), ((3, 3), 'real', 'thorough')]:
        out.append(Cell('induced[%dx%d,%s]' % (sh + (kind,)), 'c15:induced', dict(m=sh[0], n=sh[1], kind=kind), domain='a', tier=tier,
                        timeout_s=600, q_timeout_ms=10000, twin=(sh == (1, 2)), twin_timeout_s=120,
                        bounds='A %dx%d, entries %s symbolic' % (sh + ({'full': 'fully', 'complex': 'complex-subfield', 'real': 'real-axis'}[kind],))))
    for law, tier in [('homog', 'thorough'), ('triangle', 'thorough'), ('submult', 'quick')]:
        out.append(Cell('induced_law[%s]' % law, 'c15:induced_laws', dict(law=law), domain='a', tier=tier, timeout_s=300,
                        ob_timeout_ms=60000, twin=False, bounds='1x1 / 1x2 symbolic, 60 s solver cap'))
    for sh, tier in [((1, 1), 'thorough'), ((1, 2), 'thorough')]:
        out.append(Cell('frob_triangle[%dx%d]' % sh, 'c15:frob_laws', dict(m=sh[0], n=sh[1], law='triangle'), domain='z', tier=tier,
                        timeout_s=300, ob_timeout_ms=120000, twin=False, bounds='Cauchy-Schwarz form, polynomial, 120 s cap'))
    for o in ['nuc', 'Fro', 'f', 'FRO', '1', '2', 'Inf', 'INF', 3, 0, -1, 1.5, -2, float('-inf'), 'symbolic-number']:
        out.append(Cell('dispatch[ord=%r]' % (o,), 'c15:dispatch', dict(ordv=o), domain='z', twin=False, bounds='2x2 symbolic matrix'))
    for sh in [(1, 1), (2, 2), (2, 3), (3, 1)]:
        out.append(Cell('spectral[%dx%d]' % sh, 'c15:spectral', dict(m=sh[0], n=sh[1]), domain='z', twin=False,
                        bounds='singular values symbolic >= 0 (stub)'))
    for sh in [(1, 1), (2, 2)]:
        out.append(Cell('dual[%dx%d]' % sh, 'c15:dual', dict(m=sh[0], n=sh[1]), domain='z', twin=False, bounds='A symbolic'))
    return out
