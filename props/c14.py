"""C14 - results depend only on configuration and arguments: no hidden state, no mutation."""
from fractions import Fraction

from symex.runner import Cell
from . import common as cm

PROP = 'C14'


def _snap(env, x):
    """(reference, frozen flat copy of the scalars) of an argument"""
    if hasattr(x, 'toarray') or (hasattr(x, 'real') and hasattr(x, 'i') and hasattr(x, 'j') and hasattr(x, 'k') and hasattr(x, 'shape') and not hasattr(x, 'dtype')):
        parts = [x.real, x.i, x.j, x.k] if hasattr(x, 'i') else [x]
        return [(p, list(_flat(env, p.toarray()))) for p in parts]
    return [(x, list(_flat(env, x)))]


def _flat(env, x):
    from symex.harness import _flat_scalars
    return _flat_scalars(x)


def _unchanged(env, name, snaps):
    for k, sn in enumerate(snaps):
        for ref, before in sn:
            after = _flat(env, ref.toarray() if hasattr(ref, 'toarray') else ref)
            if len(after) != len(before):
                env.holds('%s: argument %d kept its size' % (name, k), False)
                continue
            if env.symbolic and all(a is b for a, b in zip(after, before)):
                env.holds('%s: argument %d is bit-identical after the call' % (name, k), True)
            else:
                env.eq('%s: argument %d is bit-identical after the call' % (name, k), after, before, tol=0.0)


def _call(env, name, fn, args):
    snaps = [_snap(env, a) for a in args]
    raised = None
    try:
        out = fn(*args)
    except Exception as e:       # mutation before a raise counts too
        raised = e
        out = None
    _unchanged(env, name, snaps)
    return out, raised


def no_mutation(env, group):
    """every argument array of the listed entry points is unchanged at return (and at a raise)"""
    R = env.R
    U = R.utils
    if group == 'algebra':
        A = env.qarr('a', (2, 2)); B = env.qarr('b', (2, 2))
        _call(env, 'quat_matmat', U.quat_matmat, [A, B])
        _call(env, 'quat_matmat(sparse,dense)', U.quat_matmat, [env.sparse(A), B])
        _call(env, 'quat_matmat(dense,sparse)', U.quat_matmat, [A, env.sparse(B)])
        _call(env, 'quat_frobenius_norm', U.quat_frobenius_norm, [A])
        _call(env, 'quat_hermitian', U.quat_hermitian, [A])
        _call(env, 'real_expand', U.real_expand, [A])
        Rr = U.real_expand(A)
        _call(env, 'real_contract', lambda r: U.real_contract(r, 2, 2), [Rr])
        _call(env, 'matrix_norm fro', U.matrix_norm, [A])
        _call(env, 'quaternion_to_complex_adjoint', U.quaternion_to_complex_adjoint, [A])
        Af = cm.comps(env, A)
        planes = [Af[..., c].copy() for c in range(4)]
        _call(env, 'normQsparse', lambda *p: U.normQsparse(*p), planes)
        _call(env, 'timesQsparse', lambda *p: U.timesQsparse(*p, *p), planes)
        _call(env, 'Realp', lambda *p: U.Realp(*p), planes)
        T = env.qarr('t', (2, 2, 2))
        _call(env, 'tensor_unfold', lambda t: R.tensor.tensor_unfold(t, 1), [T])
        _call(env, 'tensor_frobenius_norm', R.tensor.tensor_frobenius_norm, [T])
    elif group == 'norms':
        A = env.qarr('a', (2, 2), 'real')
        _call(env, 'matrix_norm 1', lambda a: U.matrix_norm(a, 1), [A])
        _call(env, 'matrix_norm inf', lambda a: U.matrix_norm(a, env.np.inf), [A])
        H = env.qarr('h', (2, 2), 'complex')
        _call(env, 'ishermitian', U.ishermitian, [H])
    elif group == 'kernels':
        x1 = env.np.array([env.real('p%d' % i) for i in range(4)]) if env.symbolic else env.np.array([env.real('p%d' % i) for i in range(4)])
        x2 = env.np.array([env.real('q%d' % i) for i in range(4)])
        _call(env, 'ggivens', U.ggivens, [x1, x2])
        _call(env, 'GRSGivens', U.GRSGivens, [x1])
        T = env.qarr('t', (2, 2), lambda idx: 'full' if idx[0] <= idx[1] else 'zero')
        B = env.qarr('b', (2, 1))
        Tn = cm.as_nested(env, T)
        lo = Fraction(1, 10 ** 12) if env.symbolic else 1e-12
        for i in range(2):
            env.assume(sum((x * x for x in Tn[i][i]), 0) >= lo, '|t_ii| >= 1e-6')
        _call(env, '_solve_upper_triangular_quat', R.solver._solve_upper_triangular_quat, [T, B])
        L = env.qarr('l', (2, 2), lambda idx: 'full' if idx[0] >= idx[1] else 'zero')
        Ln = cm.as_nested(env, L)
        for i in range(2):
            env.assume(sum((x * x for x in Ln[i][i]), 0) >= lo, '|l_ii| >= 1e-6')
        _call(env, '_solve_lower_triangular_quat', R.solver._solve_lower_triangular_quat, [L, B])
        Tf = cm.comps(env, T)
        Rp = [Tf[..., c].copy() for c in range(4)]
        _call(env, 'UtriangleQsparse (matrix part)', lambda *p: U.UtriangleQsparse(*p, *[cm.comps(env, B)[..., c].copy() for c in range(4)]), Rp)
    elif group == 'lu':
        A = env.qarr('a', (2, 2))
        _call(env, 'quaternion_lu 3-output', lambda a: R.LU.quaternion_lu(a, return_p=True), [A])
        _call(env, 'quaternion_lu 2-output', R.LU.quaternion_lu, [A])
        _call(env, 'quaternion_triu', R.LU.quaternion_triu, [A])
        _call(env, 'quaternion_tril', R.LU.quaternion_tril, [A])
        _call(env, 'quaternion_modulus', R.LU.quaternion_modulus, [A])
    elif group == 'reductions':
        A = env.qherm('a', 2)
        _call(env, 'tridiagonalize', R.tridiagonalize.tridiagonalize, [A])
        G = env.qarr('g', (3, 3), 'real')
        _call(env, 'hessenbergize', R.hessenberg.hessenbergize, [G])
        _call(env, 'check_hessenberg', R.hessenberg.check_hessenberg, [G])
    elif group == 'pinv':
        A = env.qarr('a', (2, 1))
        _call(env, 'NewtonSchulzPseudoinverse.compute', R.solver.NewtonSchulzPseudoinverse(max_iter=1).compute, [A])
        _call(env, 'HigherOrderNewtonSchulzPseudoinverse.compute', R.solver.HigherOrderNewtonSchulzPseudoinverse(max_iter=1).compute, [A])
        _call(env, 'NewtonSchulzPseudoinverse.compute(sparse)', R.solver.NewtonSchulzPseudoinverse(max_iter=1).compute, [env.sparse(A)])
        _call(env, 'CGNEQSolver.compute', R.solver.CGNEQSolver(max_iter=1).compute, [A])
    elif group in ('gmres', 'gmres_real'):
        kd = 'complex' if group == 'gmres' else 'real'
        A = env.qarr('a', (1, 1), kd); b = env.qarr('b', (1, 1), kd)
        An = cm.as_nested(env, A)
        env.assume(sum((x * x for x in An[0][0]), 0) >= (Fraction(1, 10 ** 4) if env.symbolic else 1e-4), '|a| >= 1e-2')
        _call(env, 'QGMRESSolver.solve', R.solver.QGMRESSolver().solve, [A, b])
        _call(env, 'QGMRESSolver.solve(left_lu)', R.solver.QGMRESSolver(preconditioner='left_lu').solve, [A, b])
    elif group == 'imaging':
        Q = env.rarr('q', (2, 2, 4)); psf = env.rarr('k', (2, 2)); rgb = env.rarr('c', (1, 2, 3))
        lam = Fraction(1, 10) if env.symbolic else 0.1
        _call(env, 'apply_blur_fft', R.qslst.apply_blur_fft, [Q, psf])
        _call(env, 'qslst_restore_fft', lambda q, k: R.qslst.qslst_restore_fft(q, k, lam), [Q, psf])
        _call(env, 'rgb_to_quat', R.qslst.rgb_to_quat, [rgb])
        q = R.qslst.rgb_to_quat(rgb)
        _call(env, 'quat_to_rgb(clip=False)', lambda x: R.qslst.quat_to_rgb(x, clip=False), [q])
        _call(env, '_pad_psf', lambda k: R.qslst._pad_psf(k, (3, 3)), [psf])
        _call(env, '_build_bccb_matrix', lambda k: R.deblur._build_bccb_matrix(k, 2, 2), [psf])


def config_unchanged(env, cls):
    """vars(solver) after a call equals vars(solver) before: nothing is remembered from one problem to the next"""
    Sv = env.R.solver
    if env.symbolic:
        def qr_stub(a, *args, **kw):
            from symex import shim
            n_ = a.shape[0]
            return shim.NP.eye(n_), a      # any factorisation will do for this clause
        env.stub_scipy_linalg('qr', qr_stub)
    if cls == 'QGMRES':
        objs = [(Sv.QGMRESSolver(), 1), (Sv.QGMRESSolver(max_iter=5), 1), (Sv.QGMRESSolver(preconditioner='left_lu'), 1)]
    elif cls == 'NS':
        objs = [(Sv.NewtonSchulzPseudoinverse(max_iter=1), (2, 1)), (Sv.HigherOrderNewtonSchulzPseudoinverse(max_iter=1), (1, 2))]
    elif cls == 'RSP':
        # the variants are replaced by no-ops: compute() itself is the only place that writes to the object
        objs = [(Sv.RandomizedSketchProjectPseudoinverse(block_size=4, max_iter=1, test_sketch_size=1), (2, 1)),
                (Sv.RandomizedSketchProjectPseudoinverse(block_size=4, max_iter=1, test_sketch_size=1), (1, 2)),
                (Sv.RandomizedSketchProjectPseudoinverse(block_size=1, max_iter=1, test_sketch_size=1), (3, 3))]
        if env.symbolic:
            for o, _ in objs:
                o.compute_column_variant = lambda A: (None, {})
                o.compute_row_variant = lambda A: (None, {})
    elif cls == 'RSP_full':
        objs = [(Sv.RandomizedSketchProjectPseudoinverse(block_size=4, max_iter=1, test_sketch_size=1), (2, 1))]
    elif cls == 'Hybrid':
        # sketch size larger than n, kernels replaced by no-ops: compute() itself is what may write to the object
        objs = [(Sv.HybridRSPNewtonSchulz(r=4, p=2, T=1, max_iter=1), (2, 1)), (Sv.HybridRSPNewtonSchulz(r=2, p=3, T=2, max_iter=2), (3, 3))]
        if env.symbolic:
            for o, _ in objs:
                o._rsp_step_column = lambda A, X: X
                o._ns_hyperpower_right = lambda A, X: X
    elif cls == 'Hybrid_full':
        objs = [(Sv.HybridRSPNewtonSchulz(r=1, p=2, T=1, max_iter=1), (2, 1))]
    elif cls == 'CGNE':
        objs = [(Sv.CGNEQSolver(max_iter=1), (2, 1)), (Sv.CGNEQSolver(max_iter=1, preconditioner_rank=3), (2, 1))]
    for k, (obj, shape) in enumerate(objs):
        before = {k_: v_ for k_, v_ in vars(obj).items() if not callable(v_)}
        if cls == 'QGMRES':
            A = env.qarr('a%d' % k, (1, 1), 'real'); b = env.qarr('b%d' % k, (1, 1), 'real')
            An = cm.as_nested(env, A)
            env.assume(sum((x * x for x in An[0][0]), 0) >= (Fraction(1, 10 ** 4) if env.symbolic else 1e-4), '|a| >= 1e-2')
            obj.solve(A, b)
        else:
            A = env.qarr('a%d' % k, shape, 'real')
            env.assume(cm.frob2(env, A) >= (Fraction(1, 100) if env.symbolic else 0.01), '||A||^2 >= 0.01')
            obj.compute(A)
        after = {k_: v_ for k_, v_ in vars(obj).items() if not callable(v_)}
        same = set(before) == set(after) and all(before[key] is after[key] or before[key] == after[key] for key in before)
        diff = sorted(key for key in set(before) | set(after) if not (key in before and key in after and (before[key] is after[key] or before[key] == after[key])))
        env.holds('%s object #%d: configuration unchanged by a call (changed: %s)' % (cls, k, diff), same)


def history(env, cls, first, second):
    """a reused object passes the same effective configuration to its kernels on the second problem as a fresh object"""
    Sv = env.R.solver
    if cls == 'QGMRES':
        def run(solver, n, tag):
            seen = []
            orig = solver._GMRESQsparse

            def rec(A0, A1, A2, A3, b0, b1, b2, b3, tol, maxit):
                seen.append((tol, maxit, A0.shape))
                z = env.np.zeros((n, 1))
                return z, z, z, z, 0.0, z, z, z, z, 1, []
            if env.symbolic:
                solver._GMRESQsparse = rec
            A = env.qarr('a' + tag, (n, n), 'real'); b = env.qarr('b' + tag, (n, 1), 'real')
            out = solver.solve(A, b)
            if env.symbolic:
                del solver._GMRESQsparse
            return seen, out
        if env.symbolic:
            reused = Sv.QGMRESSolver()
            run(reused, first, 'f')
            s2, _ = run(reused, second, 's')
            f2, _ = run(Sv.QGMRESSolver(), second, 's2')
            env.holds('iteration cap handed to the Krylov kernel on problem 2 (n=%d after n=%d): reused %r == fresh %r' % (second, first, s2[0][1], f2[0][1]),
                      s2[0][1] == f2[0][1] == second)
        else:
            import numpy as np
            rng = np.random.default_rng(3)
            import quaternion
            def prob(n):
                A = quaternion.as_quat_array(rng.standard_normal((n, n, 4))) + 3 * np.eye(n)
                b = quaternion.as_quat_array(rng.standard_normal((n, 1, 4)))
                return A, b
            A1, b1 = prob(first); A2, b2 = prob(second)
            reused = Sv.QGMRESSolver()
            reused.solve(A1, b1)
            x_r, i_r = reused.solve(A2, b2)
            x_f, i_f = Sv.QGMRESSolver().solve(A2, b2)
            env.eq('reused solver returns what a fresh solver returns', cm.as_nested(env, x_r), cm.as_nested(env, x_f), tol=1e-9)
            env.holds('same iteration count', i_r['iterations'] == i_f['iterations'])
    elif cls == 'RSP':
        def run(solver, shape, tag):
            seen = []
            for nm in ('compute_column_variant', 'compute_row_variant'):
                def rec(A, nm=nm):
                    seen.append((nm, solver.block_size))
                    return None, {}
                setattr(solver, nm, rec)
            A = env.qarr('a' + tag, shape, 'real')
            solver.compute(A)
            for nm in ('compute_column_variant', 'compute_row_variant'):
                delattr(solver, nm)
            return seen
        if env.symbolic:
            reused = Sv.RandomizedSketchProjectPseudoinverse(block_size=4)
            run(reused, first, 'f')
            s2 = run(reused, second, 's')
            f2 = run(Sv.RandomizedSketchProjectPseudoinverse(block_size=4), second, 's2')
            env.holds('block size used on problem 2 %r after %r: reused %r == fresh %r' % (second, first, s2, f2), s2 == f2)
            env.holds('block size = min(configured, m, n)', f2[0][1] == min(4, second[0], second[1]))
        else:
            import numpy as np
            import quaternion
            rng = np.random.default_rng(5)
            A1 = quaternion.as_quat_array(rng.standard_normal(first + (4,)))
            A2 = quaternion.as_quat_array(rng.standard_normal(second + (4,)))
            reused = Sv.RandomizedSketchProjectPseudoinverse(block_size=4, max_iter=3)
            reused.compute(A1)
            np.random.seed(11)
            X_r, _ = reused.compute(A2)
            np.random.seed(11)
            X_f, _ = Sv.RandomizedSketchProjectPseudoinverse(block_size=4, max_iter=3).compute(A2)
            env.eq('reused solver returns what a fresh solver returns (same global seed)', cm.as_nested(env, X_r), cm.as_nested(env, X_f), tol=1e-9)


def repeat(env, which):
    """repeating a call repeats the result"""
    Sv = env.R.solver
    A = env.qarr('a', (2, 1))
    solver = Sv.NewtonSchulzPseudoinverse(max_iter=2) if which == 'damped' else Sv.HigherOrderNewtonSchulzPseudoinverse(max_iter=1)
    X1, r1, c1 = solver.compute(A)
    X2, r2, c2 = solver.compute(env.twist(A))
    env.eq('second call returns the same X', cm.as_nested(env, X2), cm.as_nested(env, X1))
    env.eq('second call returns the same residual history', [v ** 2 for v in r2['AXA-A']], [v ** 2 for v in r1['AXA-A']])


META = {
    'explanation': 'bounded symbolic execution with an aliasing-faithful shim (as_float_array / as_quat_array / slices are views): every cell of every '
                   'argument array is compared with its initial term after each call; solver objects are compared field by field before / after a call; call '
                   'histories of two problems of different sizes are run with the heavy kernel replaced by a recorder and the effective configuration handed '
                   'to it is compared with a fresh object',
    'outside_claim': ['the import-style clause (package vs flat modules is a property of Python\'s module system, not of values)',
                      'seed-reproducibility of the real NumPy bit generator', 'histories longer than two calls', 'entry points not listed in the cells'],
    'assumptions': ['floats modelled as exact reals', 'heavy kernels replaced by recording stubs in the history cells'],
}


def cells():
    out = []
    for g, dom, tier in [('algebra', 'z', 'quick'), ('norms', 'a', 'quick'), ('kernels', 'a', 'quick'), ('lu', 'a', 'quick'), ('reductions', 'a', 'quick'),
                         ('pinv', 'a', 'quick'), ('gmres_real', 'a', 'quick'), ('gmres', 'a', 'thorough'), ('imaging', 'a', 'quick')]:
        out.append(Cell('no_mutation[%s]' % g, 'c14:no_mutation', dict(group=g), domain=dom, tier=tier, timeout_s=1800, q_timeout_ms=10000, twin=False,
                        bounds='small symbolic inputs (<= 3x3)'))
    for cls in ('QGMRES', 'NS', 'RSP', 'RSP_full', 'Hybrid', 'Hybrid_full', 'CGNE'):
        out.append(Cell('config_unchanged[%s]' % cls, 'c14:config_unchanged', dict(cls=cls), domain='a', tier='thorough' if cls in ('RSP_full', 'Hybrid_full') else 'quick', timeout_s=1800, q_timeout_ms=10000, twin=False,
                        bounds='one call on a small symbolic problem per configuration'))
    for first, second in [(1, 3), (2, 3), (3, 1), (1, 2), (3, 3)]:
        out.append(Cell('history[QGMRES,n=%d then n=%d]' % (first, second), 'c14:history', dict(cls='QGMRES', first=first, second=second), domain='z',
                        timeout_s=600, twin=False, bounds='two problems of different sizes on one solver object'))
    for first, second in [((1, 1), (3, 3)), ((2, 1), (3, 2)), ((3, 3), (2, 2)), ((1, 2), (2, 3)), ((3, 2), (3, 2))]:
        out.append(Cell('history[RSP,%dx%d then %dx%d]' % (first + second), 'c14:history', dict(cls='RSP', first=first, second=second), domain='z',
                        timeout_s=600, twin=False, bounds='two problems of different sizes on one solver object'))
    for which in ('damped', 'third'):
        out.append(Cell('repeat[%s]' % which, 'c14:repeat', dict(which=which), domain='a', timeout_s=900, twin=True, twin_timeout_s=300, bounds='A 2x1 symbolic'))
    return out
