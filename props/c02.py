"""C02 - real and complex embeddings are faithful *-homomorphisms with exact
round trip."""
from symex.runner import Cell
from . import common as cm

PROP = 'C02'
# real-library side: clauses about pure copying / sign flips (no arithmetic) are compared at rounding level, not at the generic 1e-6
# (seeded change C02-e: a 'Hermitian fast path' replaced entries by values 1e-8 away; the z3 model reproduced only at this tolerance)
COPY_TOL = 1e-14


def phi_entry(q):
    """4x4 real matrix of  v -> q*v  in the basis (1,i,j,k), from the unit table:
    column b holds the components of q*e_b"""
    M = [[0] * 4 for _ in range(4)]
    for a in range(4):
        for b in range(4):
            s, c = cm.UNIT[(a, b)]
            M[c][b] = M[c][b] + q[a] if s > 0 else M[c][b] - q[a]
    return M


def phi_interleaved(env, A):
    """entry-interleaved 4m x 4n real representation (independent of real_expand)"""
    N = cm.as_nested(env, A) if not isinstance(A, list) else A
    m, n = len(N), len(N[0])
    R = [[0] * (4 * n) for _ in range(4 * m)]
    for i in range(m):
        for j in range(n):
            M = phi_entry(N[i][j])
            for c in range(4):
                for b in range(4):
                    R[4 * i + c][4 * j + b] = M[c][b]
    return R


def phi_blocked(env, A):
    """component-blocked 4m x 4n real representation (independent of Realp)"""
    N = cm.as_nested(env, A) if not isinstance(A, list) else A
    m, n = len(N), len(N[0])
    R = [[0] * (4 * n) for _ in range(4 * m)]
    for i in range(m):
        for j in range(n):
            M = phi_entry(N[i][j])
            for c in range(4):
                for b in range(4):
                    R[c * m + i][b * n + j] = M[c][b]
    return R


def matmul_lists(X, Y):
    p, q, r = len(X), len(Y), len(Y[0])
    return [[sum((X[i][l] * Y[l][j] for l in range(q)), 0) for j in range(r)] for i in range(p)]


def tolists(M):
    return [[M[i, j] for j in range(M.shape[1])] for i in range(M.shape[0])]


def transpose_lists(X):
    return [list(r) for r in zip(*X)]


def real_embedding(env, m, k, n, layout):
    U = env.R.utils
    A = env.qarr('a', (m, k))
    B = env.qarr('b', (k, n))

    def emb(X):
        if layout == 'interleaved':
            return tolists(U.real_expand(X))
        Xf = cm.comps(env, X)
        return tolists(U.Realp(Xf[..., 0], Xf[..., 1], Xf[..., 2], Xf[..., 3]))

    oracle = phi_interleaved if layout == 'interleaved' else phi_blocked
    EA = emb(env.twist(A))
    env.eq('%s embedding = left-multiplication representation' % layout, EA, oracle(env, A), tol=COPY_TOL)
    env.holds('shape 4m x 4k', (len(EA), len(EA[0])) == (4 * m, 4 * k))
    EB = emb(B)
    AB = cm.qmat_from_nested(env, cm.matmul_oracle(env, A, B))
    env.eq('phi(A) phi(B) = phi(AB)', matmul_lists(emb(A), EB), emb(AB))
    env.eq('phi(A^H) = phi(A)^T', emb(cm.qmat_from_nested(env, cm.herm_oracle(env, A))), transpose_lists(emb(A)), tol=COPY_TOL)
    # real-linearity
    s, t = env.real('s'), env.real('t')
    A2 = env.qarr('c', (m, k))
    comb = cm.qmat_from_nested(env, [[[s * x + t * y for x, y in zip(e1, e2)] for e1, e2 in zip(r1, r2)]
                                     for r1, r2 in zip(cm.as_nested(env, A), cm.as_nested(env, A2))])
    EA0, EA2 = emb(A), emb(A2)
    env.eq('phi(sA + tC) = s phi(A) + t phi(C)', emb(comb),
           [[s * x + t * y for x, y in zip(r1, r2)] for r1, r2 in zip(EA0, EA2)])
    # norm scaling and injectivity (norm scaling by exactly 2 implies injectivity of a linear map)
    f2 = 0
    for row in emb(A):
        for v in row:
            f2 = f2 + v * v
    env.eq('||phi(A)||_F^2 = 4 ||A||_F^2', f2, 4 * cm.frob2(env, A))


def realp_scalar(env):
    U = env.R.utils
    q = env.quat('q')
    qi = env.twist(q)
    M = U.Realp(qi.w, qi.x, qi.y, qi.z)
    env.eq('Realp(scalar) = 4x4 left-multiplication matrix', tolists(M), phi_entry([q.w, q.x, q.y, q.z]))
    p = env.quat('p')
    Mp = U.Realp(p.w, p.x, p.y, p.z)
    pq = cm.qmul_c([q.w, q.x, q.y, q.z], [p.w, p.x, p.y, p.z])
    env.eq('Realp(q) Realp(p) = Realp(qp)', matmul_lists(tolists(U.Realp(q.w, q.x, q.y, q.z)), tolists(Mp)), phi_entry(pq))


def roundtrip(env, m, n):
    """contract(expand(A)) = A, component split/merge, column-block split: exact"""
    U = env.R.utils
    A = env.qarr('a', (m, n))
    R = U.real_expand(A)
    Rt = env.twist(R)
    back = U.real_contract(Rt, m, n)
    env.eq('real_contract(real_expand(A)) = A', cm.as_nested(env, back), cm.as_nested(env, A), tol=COPY_TOL)
    # A2A0123: column-blocked split [A0 A2 A1 A3]
    Af = cm.comps(env, A)
    stacked = env.np.hstack([Af[..., 0], Af[..., 2], Af[..., 1], Af[..., 3]])
    A0, A1, A2, A3 = U.A2A0123(stacked)
    env.eq('A2A0123 splits [A0 A2 A1 A3]', [tolists(A0), tolists(A1), tolists(A2), tolists(A3)],
           [tolists(Af[..., c]) for c in range(4)])
    # solver-side split / merge of the four component planes
    solver = env.R.solver.QGMRESSolver()
    c0, c1, c2, c3 = solver._quat_to_components(A)
    env.eq('_quat_to_components = component planes', [tolists(c0), tolists(c1), tolists(c2), tolists(c3)],
           [tolists(Af[..., c]) for c in range(4)])
    merged = solver._components_to_quat(c0, c1, c2, c3)
    env.eq('_components_to_quat(_quat_to_components(A)) = A', cm.as_nested(env, merged), cm.as_nested(env, A))
    if env.domain != 'f':       # scipy's CSR storage normalises -0.0 to +0.0: not a bit-level statement
        s0, s1, s2, s3 = solver._quat_to_components(env.sparse(A))
        env.eq('_quat_to_components(sparse A) = component planes', [tolists(s0), tolists(s1), tolists(s2), tolists(s3)],
               [tolists(Af[..., c]) for c in range(4)])
    t0, t1, t2, t3 = solver._quat_to_components((c0, c1, c2, c3))
    env.eq('_quat_to_components(tuple) passes through', [tolists(t0), tolists(t1), tolists(t2), tolists(t3)],
           [tolists(Af[..., c]) for c in range(4)])


def complex_adjoint(env, n):
    U = env.R.utils
    A = env.qarr('a', (n, n))
    B = env.qarr('b', (n, n))

    def chi(X):
        M = U.quaternion_to_complex_adjoint(X)
        return [[M[i, j] for j in range(2 * n)] for i in range(2 * n)]

    def split(M):
        return [[(v.real, v.imag) for v in row] for row in M]

    def cmul(X, Y):
        p, q, r = len(X), len(Y), len(Y[0])
        out = []
        for i in range(p):
            row = []
            for j in range(r):
                re, im = 0, 0
                for l in range(q):
                    a, b = X[i][l]
                    c, d = Y[l][j]
                    re = re + a * c - b * d
                    im = im + a * d + b * c
                row.append((re, im))
            out.append(row)
        return out

    CA = split(chi(env.twist(A)))
    CA0 = split(chi(A))
    CB = split(chi(B))
    AB = cm.qmat_from_nested(env, cm.matmul_oracle(env, A, B))
    env.eq('chi(A) chi(B) = chi(AB)', cmul(CA, CB), split(chi(AB)))
    AH = cm.qmat_from_nested(env, cm.herm_oracle(env, A))
    env.eq('chi(A^H) = chi(A)^H', split(chi(AH)), [[(CA0[j][i][0], -CA0[j][i][1]) for j in range(2 * n)] for i in range(2 * n)])
    f2 = 0
    for row in CA0:
        for re, im in row:
            f2 = f2 + re * re + im * im
    env.eq('||chi(A)||_F^2 = 2 ||A||_F^2', f2, 2 * cm.frob2(env, A))
    # anchoring of the complex subfield: chi maps (w + x i) I-scaled entries to diag(c, conj c)
    Af = cm.comps(env, A)
    env.eq('upper-left block = W + iX', [[CA0[i][j] for j in range(n)] for i in range(n)],
           [[(Af[i, j, 0], Af[i, j, 1]) for j in range(n)] for i in range(n)])
    s, t = env.real('s'), env.real('t')
    comb = cm.qmat_from_nested(env, [[[s * x + t * y for x, y in zip(e1, e2)] for e1, e2 in zip(r1, r2)]
                                     for r1, r2 in zip(cm.as_nested(env, A), cm.as_nested(env, B))])
    env.eq('chi(sA + tB) = s chi(A) + t chi(B)', split(chi(comb)),
           [[(s * a[0] + t * b[0], s * a[1] + t * b[1]) for a, b in zip(r1, r2)] for r1, r2 in zip(CA0, CB)])


META = {
    'explanation': 'bounded symbolic execution of real_expand, real_contract, Realp, A2A0123, quaternion_to_complex_adjoint and the '
                   "Krylov solver's component split/merge; homomorphism clauses are polynomial identities decided by z3 over the reals; "
                   'round-trip clauses are decided bit-precisely in the IEEE-754 binary64 theory (z3 FloatingPoint sort)',
    'outside_claim': ['shapes with a dimension > 3', 'rounding inside products of embedded matrices (reals model)',
                      'complex adjoint for axes other than x (the code raises NotImplementedError)'],
    'assumptions': ['floats modelled as exact reals for the homomorphism clauses; as IEEE binary64 for the round-trip clauses'],
}


def cells():
    out = []
    for layout in ('interleaved', 'blocked'):
        for sh, tier in [((1, 1, 1), 'quick'), ((2, 2, 2), 'quick'), ((1, 2, 3), 'quick'), ((3, 2, 1), 'quick'),
                         ((2, 3, 2), 'thorough'), ((3, 3, 3), 'thorough'), ((3, 1, 2), 'thorough')]:
            out.append(Cell('real_embedding[%s,%dx%dx%d]' % ((layout,) + sh), 'c02:real_embedding',
                            dict(m=sh[0], k=sh[1], n=sh[2], layout=layout), domain='z', tier=tier, timeout_s=300,
                            twin=(sh == (2, 2, 2)), bounds='A %dx%d, B %dx%d fully symbolic' % (sh[0], sh[1], sh[1], sh[2])))
    out.append(Cell('realp_scalar', 'c02:realp_scalar', {}, domain='z', bounds='two symbolic quaternions'))
    for sh in [(1, 1), (2, 2), (2, 3), (3, 1), (3, 3)]:
        out.append(Cell('roundtrip_real[%dx%d]' % sh, 'c02:roundtrip', dict(m=sh[0], n=sh[1]), domain='z',
                        twin=(sh == (2, 2)), bounds='A %dx%d symbolic (reals)' % sh))
        out.append(Cell('roundtrip_ieee[%dx%d]' % sh, 'c02:roundtrip', dict(m=sh[0], n=sh[1]), domain='f',
                        twin=(sh == (2, 2)), bounds='A %dx%d, every component an arbitrary binary64 value (incl. inf, NaN, -0, subnormals)' % sh))
    for n, tier in [(1, 'quick'), (2, 'quick'), (3, 'thorough')]:
        out.append(Cell('complex_adjoint[n=%d]' % n, 'c02:complex_adjoint', dict(n=n), domain='z', tier=tier, timeout_s=300,
                        twin=(n == 2), bounds='A, B %dx%d fully symbolic' % (n, n)))
    return out
