"""C17 - QSLST restoration solves the Tikhonov normal equations of the
documented blur (centred periodic convolution)."""
from fractions import Fraction

from symex.runner import Cell

PROP = 'C17'


def conv_oracle(k, kH, kW, x, H, W):
    """centred circular convolution from the definition:
    (k*x)[i,j] = sum_{u,v} k[u,v] x[(i-(u-cH)) mod H, (j-(v-cW)) mod W],  cH = kH//2, cW = kW//2"""
    cH, cW = kH // 2, kW // 2
    out = [[0] * W for _ in range(H)]
    for i in range(H):
        for j in range(W):
            acc = 0
            for u in range(kH):
                for v in range(kW):
                    acc = acc + k[u][v] * x[(i - (u - cH)) % H][(j - (v - cW)) % W]
            out[i][j] = acc
    return out


def conv_matrix(k, kH, kW, H, W):
    """explicit N x N matrix of the same operator, row-major vec"""
    cH, cW = kH // 2, kW // 2
    N = H * W
    A = [[0] * N for _ in range(N)]
    for i in range(H):
        for j in range(W):
            for u in range(kH):
                for v in range(kW):
                    p, q = (i - (u - cH)) % H, (j - (v - cW)) % W
                    A[i * W + j][p * W + q] = A[i * W + j][p * W + q] + k[u][v]
    return A


def _lists2(a, H, W):
    return [[a[i, j] for j in range(W)] for i in range(H)]


def _psf(env, kH, kW, concrete=None):
    if concrete is not None:
        return env.rconst([[Fraction(x) for x in row] for row in concrete]) if env.symbolic else env.rconst([[float(Fraction(x)) for x in row] for row in concrete])
    return env.rarr('k', (kH, kW))


def blur(env, H, W, kH, kW, channels=4):
    Q = env.R.qslst
    psf = _psf(env, kH, kW)
    X = env.rarr('x', (H, W, 4))
    if channels < 4 and env.symbolic:
        for c in range(channels, 4):
            X[..., c] = 0
    elif channels < 4:
        X[..., channels:] = 0.0
    B = Q.apply_blur_fft(env.twist(X), psf)
    env.holds('blur output shape', tuple(B.shape) == (H, W, 4))
    k = _lists2(psf, kH, kW)
    got, want = [], []
    for c in range(channels):
        o = conv_oracle(k, kH, kW, _lists2(X[..., c], H, W), H, W)
        got.append(_lists2(B[..., c], H, W))
        want.append(o)
    env.eq('blur = centred periodic convolution of every channel', got, want)
    ksum = sum((sum(r, 0) for r in k), 0)
    for c in range(channels):
        tot_b = sum((B[i, j, c] for i in range(H) for j in range(W)), 0)
        tot_x = sum((X[i, j, c] for i in range(H) for j in range(W)), 0)
        env.eq('total mass of channel %d scaled by sum(psf)' % c, [tot_b], [ksum * tot_x])
    # impulse response: delta at (i0,j0) -> PSF centred there
    i0, j0 = H // 2, W // 2
    D = env.rconst([[[1.0 if (i == i0 and j == j0 and c == 0) else 0.0 for c in range(4)] for j in range(W)] for i in range(H)])
    Bd = Q.apply_blur_fft(D, psf)
    cH, cW = kH // 2, kW // 2
    want = [[0] * W for _ in range(H)]
    for u in range(kH):
        for v in range(kW):
            ii, jj = (i0 + u - cH) % H, (j0 + v - cW) % W
            want[ii][jj] = want[ii][jj] + psf[u, v]
    env.eq('impulse is mapped to the PSF centred on its middle tap', _lists2(Bd[..., 0], H, W), want)


def builders(env, H, W, kH, kW, concrete=None):
    D = env.R.deblur
    psf = _psf(env, kH, kW, concrete)
    if concrete is None:
        for v in psf.reshape(-1):
            env.assume(v != 0, 'psf taps != 0')
    k = _lists2(psf, kH, kW)
    want = conv_matrix(k, kH, kW, H, W)
    N = H * W
    Ad = D._build_bccb_matrix(env.twist(psf), H, W)
    env.holds('dense builder shape', tuple(Ad.shape) == (N, N))
    env.eq('dense builder = matrix of the centred periodic convolution', _lists2(Ad, N, N), want)
    As = D._build_bccb_csr(psf, H, W)
    env.holds('sparse builder shape', tuple(As.shape) == (N, N))
    Asd = As.toarray()
    env.eq('sparse builder = matrix of the centred periodic convolution', _lists2(Asd, N, N), want)
    env.eq('dense and sparse builders agree', _lists2(Asd, N, N), _lists2(D._build_bccb_matrix(psf, H, W), N, N))


def _normal_eq_residual(A, N, lam, x, b):
    """(A^T A + lam I) x - A^T b  for lists"""
    Ax = [sum((A[r][c] * x[c] for c in range(N)), 0) for r in range(N)]
    out = []
    for c in range(N):
        v = sum((A[r][c] * (Ax[r] - b[r]) for r in range(N)), 0) + lam * x[c]
        out.append(v)
    return out


def restore(env, H, W, kH, kW, concrete=None, lam=None, channels=1):
    Q = env.R.qslst
    psf = _psf(env, kH, kW, concrete)
    if lam is None:
        lam_v = env.real('lam')
        env.assume(lam_v > 0, 'lambda > 0')
        env.assume(lam_v <= 10, 'lambda <= 10')
    else:
        lam_v = Fraction(lam) if env.symbolic else float(Fraction(lam))
    B = env.rarr('b', (H, W, 4))
    X = Q.qslst_restore_fft(env.twist(B), psf, lam_v)
    env.holds('restoration output shape', tuple(X.shape) == (H, W, 4))
    k = _lists2(psf, kH, kW)
    A = conv_matrix(k, kH, kW, H, W)
    N = H * W
    for c in range(channels):
        x = [X[i, j, c] for i in range(H) for j in range(W)]
        b = [B[i, j, c] for i in range(H) for j in range(W)]
        env.zero('(A^T A + lambda I) X = A^T B for the oracle A, channel %d' % c, _normal_eq_residual(A, N, lam_v, x, b))


def restore_matrix(env, H, W, kH, kW, concrete, lam):
    """matrix form of the algorithm on the explicit operator = FFT form"""
    Q = env.R.qslst
    D = env.R.deblur
    psf = _psf(env, kH, kW, concrete)
    lam_v = Fraction(lam) if env.symbolic else float(Fraction(lam))
    B = env.rarr('b', (H, W, 4))
    N = H * W
    if env.symbolic:
        env.stub_linalg('pinv', _exact_inverse)
    A = D._build_bccb_matrix(psf, H, W)
    Xm = Q.qslst_restore_matrix(env.twist(B), A, lam_v)
    Xf = Q.qslst_restore_fft(B, psf, lam_v)
    env.eq('matrix path = FFT path', [Xm[i, j, c] for i in range(H) for j in range(W) for c in range(4)],
           [Xf[i, j, c] for i in range(H) for j in range(W) for c in range(4)])
    As = D._build_bccb_csr(psf, H, W).toarray()
    Xs = Q.qslst_restore_matrix(B, As, lam_v)
    env.eq('matrix path on the sparse builder = FFT path', [Xs[i, j, c] for i in range(H) for j in range(W) for c in range(4)],
           [Xf[i, j, c] for i in range(H) for j in range(W) for c in range(4)])
    k = _lists2(psf, kH, kW)
    Ao = conv_matrix(k, kH, kW, H, W)
    for c in range(4):
        x = [Xm[i, j, c] for i in range(H) for j in range(W)]
        b = [B[i, j, c] for i in range(H) for j in range(W)]
        env.zero('matrix path satisfies the normal equations, channel %d' % c, _normal_eq_residual(Ao, N, lam_v, x, b))


def _exact_inverse(T):
    """contract stub for np.linalg.pinv on a concrete non-singular matrix: exact rational inverse"""
    from symex import shim
    from symex.scalar import K, Unsupported, lift
    n = T.shape[0]
    M = []
    for i in range(n):
        row = []
        for j in range(n):
            v = lift(T[i, j])
            if not isinstance(v, K):
                raise Unsupported('pinv stub needs a concrete matrix')
            row.append(Fraction(v.v))
        M.append(row + [Fraction(int(i == j)) for j in range(n)])
    for c in range(n):
        p = next((r for r in range(c, n) if M[r][c] != 0), None)
        if p is None:
            raise Unsupported('pinv stub: singular matrix (Moore-Penrose inverse of a singular T is LAPACK territory)')
        M[c], M[p] = M[p], M[c]
        pv = M[c][c]
        M[c] = [v / pv for v in M[c]]
        for r in range(n):
            if r != c and M[r][c] != 0:
                f = M[r][c]
                M[r] = [a - f * b for a, b in zip(M[r], M[c])]
    out = shim.robj((n, n))
    for i in range(n):
        for j in range(n):
            out[i, j] = K(M[i][n + j])
    return out


def linearity(env, H, W, kH, kW):
    Q = env.R.qslst
    psf = _psf(env, kH, kW)
    lam_v = env.real('lam')
    env.assume(lam_v > 0, 'lambda > 0')
    B1 = env.rarr('b', (H, W, 4))
    B2 = env.rarr('c', (H, W, 4))
    s, t = env.real('s'), env.real('t')
    X1 = Q.qslst_restore_fft(B1, psf, lam_v)
    X2 = Q.qslst_restore_fft(B2, psf, lam_v)
    X12 = Q.qslst_restore_fft(env.twist(s * B1 + t * B2), psf, lam_v)
    env.eq('restore(sB1 + tB2) = s restore(B1) + t restore(B2)', list(X12.reshape(-1)), list((s * X1 + t * X2).reshape(-1)))


def inverse_at_zero(env, H, W, kH, kW):
    """lambda = 0 inverts the blur wherever no Fourier coefficient of the PSF vanishes
    (the other paths are division-by-zero events = 'not invertible')"""
    Q = env.R.qslst
    psf = _psf(env, kH, kW)
    X = env.rarr('x', (H, W, 4))
    if env.symbolic:
        X[..., 1:] = 0
    else:
        X[..., 1:] = 0.0
    B = Q.apply_blur_fft(X, psf)
    lam0 = 0 if env.symbolic else 0.0
    R = Q.qslst_restore_fft(env.twist(B), psf, lam0)
    env.eq('restore(blur(X), lambda=0) = X', list(R[..., 0].reshape(-1)), list(X[..., 0].reshape(-1)))


def gaussian_unit_sum(env, radius):
    Q = env.R.qslst
    sigma = env.real('sigma')
    env.assume(sigma > 0, 'sigma > 0')
    psf = Q.build_psf_gaussian(radius, sigma)
    env.holds('gaussian psf shape', tuple(psf.shape) == (2 * radius + 1, 2 * radius + 1))
    env.eq('gaussian psf sums to one', [sum(psf.reshape(-1), 0)], [1])


MOTION3 = [['0', '0', '0'], ['1/3', '1/3', '1/3'], ['0', '0', '0']]
ASYM3 = [['1/10', '0', '0'], ['0', '1/2', '1/5'], ['0', '0', '1/5']]
ASYM2 = [['3/5', '1/10'], ['1/5', '1/10']]
GAUSS3 = [['1/16', '1/8', '1/16'], ['1/8', '1/4', '1/8'], ['1/16', '1/8', '1/16']]
ROW13 = [['1/2', '1/3', '1/6']]

META = {
    'explanation': 'bounded symbolic execution of _pad_psf, apply_blur_fft, qslst_restore_fft, qslst_restore_matrix and the two BCCB builders; '
                   'numpy.fft is replaced by the exact DFT (over Q(i), Q(i,sqrt 3)); clauses are bilinear / rational identities against the '
                   'index-level definition of centred circular convolution',
    'outside_claim': ['images larger than 4x4 and sizes whose roots of unity need more than sqrt(3)',
                      'values produced by the Gaussian generator (exp is an opaque positive symbol; only the unit-sum clause) and the motion generator (round/trig)',
                      'np.linalg.pinv on singular T (LAPACK); rounding; NumPy FFT is trusted to implement the DFT'],
    'assumptions': ['numpy.fft.fft2/ifft2 = exact DFT', 'np.linalg.pinv = exact inverse on the concrete non-singular T of the matrix-path cells',
                    'floats modelled as exact reals'],
}


def cells():
    out = []
    quick_blur = [(2, 2, 1, 1), (2, 2, 2, 2), (2, 2, 1, 2), (3, 3, 3, 3), (3, 3, 2, 2), (2, 4, 2, 3), (4, 4, 3, 3), (4, 2, 2, 1), (1, 4, 1, 3), (3, 2, 3, 1), (1, 1, 1, 1)]
    more_blur = [(4, 4, 2, 2), (4, 4, 4, 4), (4, 3, 3, 2), (3, 4, 2, 3), (4, 4, 1, 3), (2, 3, 2, 3), (3, 3, 1, 2), (4, 4, 3, 2)]
    for (H, W, kH, kW) in quick_blur + more_blur:
        dom = 'a' if (3 in (H, W)) else 'z'
        ch = 4 if H * W <= 6 else 2
        out.append(Cell('blur[%dx%d,psf %dx%d]' % (H, W, kH, kW), 'c17:blur', dict(H=H, W=W, kH=kH, kW=kW, channels=ch), domain=dom,
                        tier='quick' if (H, W, kH, kW) in quick_blur else 'thorough', timeout_s=600,
                        twin=((H, W, kH, kW) in [(2, 2, 2, 2), (3, 3, 2, 2)]),
                        bounds='image %dx%d (%d channels symbolic), every PSF tap symbolic' % (H, W, ch)))
    for (H, W, kH, kW) in [(2, 2, 1, 1), (2, 2, 2, 2), (3, 3, 3, 3), (3, 3, 2, 2), (2, 3, 2, 3), (4, 4, 3, 3), (3, 2, 2, 1), (4, 4, 2, 2), (4, 3, 2, 3)]:
        out.append(Cell('builders[%dx%d,psf %dx%d]' % (H, W, kH, kW), 'c17:builders', dict(H=H, W=W, kH=kH, kW=kW), domain='z',
                        tier='quick', timeout_s=300, twin=((H, W, kH, kW) == (3, 3, 2, 2)),
                        bounds='every PSF tap symbolic and non-zero'))
    for name, ker, H, W in [('motion3', MOTION3, 4, 4), ('asym3', ASYM3, 3, 3), ('asym3', ASYM3, 4, 4), ('asym2', ASYM2, 3, 4), ('row13', ROW13, 2, 4)]:
        out.append(Cell('builders[%dx%d,%s]' % (H, W, name), 'c17:builders', dict(H=H, W=W, kH=len(ker), kW=len(ker[0]), concrete=ker),
                        domain='z', twin=False, bounds='concrete rational kernel with zero taps'))
    for (H, W, kH, kW), tier in [((1, 1, 1, 1), 'quick'), ((2, 2, 1, 1), 'quick'), ((2, 2, 2, 2), 'quick'), ((2, 2, 1, 2), 'quick'), ((1, 2, 1, 2), 'quick'), ((2, 1, 2, 1), 'quick')]:
        out.append(Cell('restore[%dx%d,psf %dx%d sym]' % (H, W, kH, kW), 'c17:restore', dict(H=H, W=W, kH=kH, kW=kW, channels=2), domain='a',
                        tier=tier, timeout_s=900, twin=((H, W, kH, kW) == (2, 2, 1, 2)), twin_timeout_s=300,
                        bounds='PSF taps, lambda in (0,10] and B symbolic'))
    for name, ker, H, W, tier in [('asym3', ASYM3, 3, 3, 'quick'), ('gauss3', GAUSS3, 3, 3, 'quick'), ('motion3', MOTION3, 4, 4, 'quick'),
                                  ('asym2', ASYM2, 4, 4, 'quick'), ('asym3', ASYM3, 4, 4, 'thorough'), ('row13', ROW13, 2, 4, 'quick'), ('asym2', ASYM2, 2, 3, 'quick')]:
        out.append(Cell('restore[%dx%d,%s]' % (H, W, name), 'c17:restore', dict(H=H, W=W, kH=len(ker), kW=len(ker[0]), concrete=ker, channels=1),
                        domain='a', tier=tier, timeout_s=900, twin=False, bounds='concrete rational kernel; lambda in (0,10] and B symbolic'))
    for name, ker, H, W, lam, tier in [('asym2', ASYM2, 2, 2, '1/100', 'quick'), ('asym3', ASYM3, 3, 3, '1/10', 'quick'), ('gauss3', GAUSS3, 3, 3, '1/1000', 'quick'),
                                       ('row13', ROW13, 2, 4, '1', 'quick'), ('asym2', ASYM2, 4, 4, '1/100', 'thorough'), ('asym2', ASYM2, 2, 2, '0', 'quick')]:
        out.append(Cell('restore_matrix[%dx%d,%s,lam=%s]' % (H, W, name, lam), 'c17:restore_matrix',
                        dict(H=H, W=W, kH=len(ker), kW=len(ker[0]), concrete=ker, lam=lam), domain='a', tier=tier, timeout_s=900,
                        twin=(name == 'asym2' and lam == '1/100' and H == 2), bounds='concrete kernel and lambda; B symbolic; pinv = exact inverse'))
    out.append(Cell('linearity[2x2,psf 2x2]', 'c17:linearity', dict(H=2, W=2, kH=2, kW=2), domain='a', timeout_s=900, twin=False,
                    bounds='PSF, lambda > 0, two images and two scalars symbolic'))
    for (H, W, kH, kW) in [(2, 2, 2, 2), (2, 2, 1, 2), (1, 2, 1, 2)]:
        out.append(Cell('inverse_at_zero[%dx%d,psf %dx%d]' % (H, W, kH, kW), 'c17:inverse_at_zero', dict(H=H, W=W, kH=kH, kW=kW), domain='a', events='outside',
                        timeout_s=600, twin=False, bounds='PSF and one channel of X symbolic; lambda = 0'))
    for r in (1,):
        out.append(Cell('gaussian_unit_sum[r=%d]' % r, 'c17:gaussian_unit_sum', dict(radius=r), domain='a', twin=False,
                        bounds='sigma symbolic > 0, exp opaque'))
    return out
