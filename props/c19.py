"""C19 - power iteration returns a unit vector and a bounded Rayleigh-quotient modulus
(boundedness clauses only; convergence is a limit statement and is not claimed)."""
from fractions import Fraction

from symex.runner import Cell
from . import common as cm

PROP = 'C19'


def _hook_unit_second_factor(env):
    """create_test_matrix(n,1) draws A (n,1,4) and B (1,1,4) and returns A*B; fixing B = 1 makes the
    start vector an arbitrary symbolic quaternion vector (every start vector is of this form)"""
    from symex import shim, scalar as S
    state = {'k': 0}

    def hook(shape, tag):
        import numpy as np
        state['k'] += 1
        a = np.empty(shape, dtype=object)
        if state['k'] % 2 == 0 and tuple(shape) == (1, 1, 4):
            a[0, 0, 0] = S.K(Fraction(1)); a[0, 0, 1] = S.K(Fraction(0)); a[0, 0, 2] = S.K(Fraction(0)); a[0, 0, 3] = S.K(Fraction(0))
            return a.view(shim.RArr)
        for i in range(a.size):
            shim.NP._ndraw += 1
            a.flat[i] = S.CTX.newvar('rnd%d' % shim.NP._ndraw)
        return a.view(shim.RArr)
    shim.NP._draw_hook = hook


def power(env, n, kind, iters, hermitian=False):
    U = env.R.utils
    A = env.qherm('a', n, kind) if hermitian else env.qarr('a', (n, n), kind)
    if env.symbolic:
        _hook_unit_second_factor(env)
    try:
        v, lam = U.power_iteration(env.twist(A), max_iterations=iters, return_eigenvalue=True)
    except ValueError as e:
        # the all-zero draw (a probability-zero event of the Gaussian start) is rejected loudly: documented
        env.holds('the only ValueError is the zero start vector', 'zero norm' in str(e))
        return
    finally:
        if env.symbolic:
            from symex import shim
            shim.NP._draw_hook = None
    env.holds('vector shape n x 1', tuple(v.shape) == (n, 1))
    env.eq('returned vector has unit norm', [cm.frob2(env, v)], [1])
    env.le('eigenvalue estimate >= 0', 0, lam)
    vn, An = cm.as_nested(env, v), cm.as_nested(env, A)
    from .c07 import cm_matmul_nested
    from .c08 import _herm_nested
    ray = cm_matmul_nested(cm_matmul_nested(_herm_nested(vn), An), vn)[0][0]
    env.eq('estimate^2 = |v^H A v|^2 (v unit)', [lam ** 2], [sum((x * x for x in ray), 0)])
    if n == 1:
        env.eq('1x1: estimate = |a| = ||A||_2', [lam ** 2], [cm.frob2(env, A)])
    else:
        env.le('estimate <= ||A||_F (hence bounded; the sharp bound ||A||_2 needs singular values)', lam ** 2, cm.frob2(env, A), slack=1e-9)
    v1 = U.power_iteration(A, max_iterations=iters) if not env.symbolic else None
    if v1 is not None:
        env.holds('vector-only call returns an n x 1 array', tuple(v1.shape) == (n, 1))


def scale_invariance(env, n, kind, iters, hermitian=False):
    """power_iteration(c A), c > 0, from the SAME start vector returns the same vector and c times the estimate, on every exit path:
    all stopping tests of the iteration act on scale-free quantities (differences of unit vectors) or on exact breakdown, so whether
    'enough iterations' are performed cannot depend on the magnitude of A.  (Seeded change C19-e compared ||A v|| with the
    convergence tolerance: small-norm matrices then stop at iteration 0.)"""
    U = env.R.utils
    A = env.qherm('a', n, kind) if hermitian else env.qarr('a', (n, n), kind)
    c = env.real('c')
    env.assume(c > 0, 'scale factor c > 0')
    An = cm.as_nested(env, A)
    cA = cm.qmat_from_nested(env, [[[c * x for x in e] for e in r] for r in An])

    def run(M):
        if env.symbolic:
            from symex import shim
            shim.NP._ndraw = 0          # both calls see the same draws (same names -> same symbolic start vector)
            _hook_unit_second_factor(env)
        else:
            import numpy as np
            np.random.seed(5)
        try:
            return U.power_iteration(M, max_iterations=iters, return_eigenvalue=True)
        finally:
            if env.symbolic:
                from symex import shim
                shim.NP._draw_hook = None
    try:
        v1, l1 = run(A)
        v2, l2 = run(env.twist(cA))
    except ValueError as e:
        env.holds('the only ValueError is the zero start vector', 'zero norm' in str(e))
        return
    env.eq('same vector for A and c A (c > 0) from the same start', cm.as_nested(env, v2), cm.as_nested(env, v1), tol=1e-9)
    env.eq('estimate(c A) = c estimate(A)', [l2], [c * l1], tol=1e-9)


def nonherm_hermitian_path(env, n, kind, fmt):
    """Hermitian input takes the quaternion fast path: real eigenvalue in both formats, unit vector"""
    U = env.R.utils
    A = env.qherm('a', n, kind)
    if env.symbolic:
        _hook_unit_second_factor(env)
    try:
        q, lam, res = U.power_iteration_nonhermitian(A, max_iterations=1, eigenvalue_format=fmt)
    except ValueError as e:
        env.holds('the only ValueError is the zero start vector', 'zero norm' in str(e))
        return
    finally:
        if env.symbolic:
            from symex import shim
            shim.NP._draw_hook = None
    env.holds('vector shape (n,)', tuple(q.shape) == (n,))
    env.eq('unit vector', [sum((x * x for i in range(n) for x in [q[i].w, q[i].x, q[i].y, q[i].z]), 0)], [1])
    if fmt == 'quaternion':
        env.eq('Hermitian input: eigenvalue is real (quaternion format)', [lam.x, lam.y, lam.z], [0, 0, 0])
    else:
        env.eq('Hermitian input: eigenvalue is real (complex format)', [lam.imag], [0])
    env.holds('one residual entry', len(res) == 1)


def nonherm_adjoint_path(env, n, kind):
    """non-Hermitian input: the complex-adjoint iteration returns a unit quaternion vector for every start"""
    U = env.R.utils
    A = env.qarr('a', (n, n), kind)
    An = cm.as_nested(env, A)
    # non-Hermitian: imaginary diagonal entry by a margin
    env.assume(An[0][0][1] * An[0][0][1] >= (Fraction(1, 100) if env.symbolic else 0.01), 'Im a_00 by a margin (not Hermitian)')
    try:
        q, lam, res = U.power_iteration_nonhermitian(env.twist(A), max_iterations=1, res_tol=None)
    except ValueError as e:
        # |a| huge relative to its imaginary part: A is Hermitian within allclose's rtol, the fast path is taken
        # and the all-zero Gaussian start (probability zero) is rejected loudly
        env.holds('the only ValueError is the zero start vector', 'zero norm' in str(e))
        return
    env.holds('vector shape (n,)', tuple(q.shape) == (n,))
    env.eq('unit quaternion vector', [sum((x * x for i in range(n) for x in [q[i].w, q[i].x, q[i].y, q[i].z]), 0)], [1])


META = {
    'explanation': 'bounded symbolic execution of power_iteration (random start vector = arbitrary symbolic vector), its Rayleigh-quotient modulus, and both '
                   'paths of power_iteration_nonhermitian for n <= 2 and <= 2 iterations; all exits (breakdown, convergence test, stagnation test, budget)',
    'outside_claim': ['convergence to the dominant eigenpair from every start, the sign clause, the bound by the spectral norm for n >= 2 (needs singular values): '
                      'limit / LAPACK statements, not bounded ones', 'n >= 3, more than 2 iterations', 'rounding'],
    'assumptions': ['floats modelled as exact reals', 'the second Gaussian factor of create_test_matrix(n,1) is fixed to 1 (every start vector is still covered)',
                    'RNG draws are arbitrary reals'],
}


def cells():
    out = []
    big = dict(domain='a', timeout_s=1800, q_timeout_ms=10000, ob_timeout_ms=60000, max_paths=600)
    for n, kind, iters, herm, tier in [(1, 'full', 1, False, 'quick'), (1, 'complex', 2, False, 'quick'), (1, 'real', 1, True, 'quick'), (1, 'real', 2, False, 'quick'),
                                       (2, 'real', 1, False, 'thorough'), (2, 'real', 1, True, 'thorough'), (2, 'complex', 1, False, 'thorough'),
                                       (1, 'full', 2, False, 'thorough'), (2, 'real', 2, False, 'thorough')]:
        out.append(Cell('power[n=%d,%s,iters=%d%s]' % (n, kind, iters, ',hermitian' if herm else ''), 'c19:power',
                        dict(n=n, kind=kind, iters=iters, hermitian=herm), tier=tier, twin=False,
                        bounds='A %dx%d (%s) and the start vector symbolic; %d iteration(s)' % (n, n, kind, iters), **big))
    for n, kind, iters, herm, tier in [(1, 'real', 1, False, 'quick'), (1, 'real', 2, False, 'quick'), (1, 'complex', 1, False, 'thorough'), (1, 'full', 1, False, 'thorough'), (1, 'complex', 2, False, 'thorough'),
                                       (2, 'real', 1, False, 'thorough'), (2, 'real', 1, True, 'thorough'), (1, 'full', 2, False, 'thorough')]:
        out.append(Cell('scale_invariance[n=%d,%s,iters=%d%s]' % (n, kind, iters, ',hermitian' if herm else ''), 'c19:scale_invariance',
                        dict(n=n, kind=kind, iters=iters, hermitian=herm), tier=tier, twin=False,
                        bounds='A %dx%d (%s), scale c > 0 and the start vector symbolic; %d iteration(s); two calls from the same start' % (n, n, kind, iters), **big))
    for fmt in ('complex', 'quaternion'):
        out.append(Cell('nonherm_fastpath[n=1,%s]' % fmt, 'c19:nonherm_hermitian_path', dict(n=1, kind='real', fmt=fmt), twin=False,
                        bounds='1x1 Hermitian input', **big))
    out.append(Cell('nonherm_fastpath[n=2,complex]', 'c19:nonherm_hermitian_path', dict(n=2, kind='real', fmt='complex'), tier='thorough', twin=False,
                    bounds='2x2 Hermitian real-axis input', **big))
    out.append(Cell('nonherm_adjoint[n=1]', 'c19:nonherm_adjoint_path', dict(n=1, kind='complex'), tier='thorough', twin=False,
                    bounds='1x1 non-Hermitian input, complex power iteration with symbolic start, 1 iteration', **big))
    return out
