"""C20 - arguments outside an operation's domain are rejected loudly, never answered;
in-domain boundary arguments are never rejected."""
from fractions import Fraction

from symex.runner import Cell
from . import common as cm
from .c14 import _snap, _unchanged

PROP = 'C20'


def _reject(env, name, fn, args, exc=(ValueError,)):
    """clause: fn(*args) raises one of exc on every path, with every argument unchanged at that point"""
    snaps = [_snap(env, a) for a in args if hasattr(a, 'shape')]
    env.raises('%s is rejected' % name, lambda: fn(*args), exc)
    _unchanged(env, name, snaps)


def _accept(env, name, fn, args, guard=(ValueError, TypeError, NotImplementedError, AssertionError, IndexError)):
    """clause: fn(*args) does not raise a guard exception"""
    try:
        out = fn(*args)
    except guard as e:
        env.holds('%s is accepted (raised %s: %s)' % (name, type(e).__name__, e), False)
        return None
    env.holds('%s is accepted' % name, True)
    return out


def _nonherm(env, n=2, name='a'):
    """non-Hermitian by a margin: H + e E_10 with H Hermitian (real-axis entries) and
    |e| >= 1e-3 * sqrt(1 + ||H||_F^2)"""
    H = env.qherm(name, n, 'real')
    e = env.real(name + '_e')
    tot = cm.frob2(env, H)
    env.assume(e * e >= (Fraction(1, 10 ** 6) if env.symbolic else 1e-6) * (1 + tot), 'non-Hermitian by a margin: |e| >= 1e-3 sqrt(1 + ||H||^2)')
    A = H.copy()
    q = A[1, 0]
    A[1, 0] = env.q(q.w + e, q.x, q.y, q.z)
    return A


def table(env, row):
    R = env.R
    U = R.utils
    q23 = lambda nm='a': env.qarr(nm, (2, 3))
    q32 = lambda nm='a': env.qarr(nm, (3, 2))
    q22 = lambda nm='a': env.qarr(nm, (2, 2))
    r22 = lambda nm='r': env.rarr(nm, (2, 2))
    if row == 'norm_dtype':
        for fname in ('induced_matrix_norm_1', 'induced_matrix_norm_inf', 'spectral_norm_2'):
            f = getattr(U, fname)
            _reject(env, '%s(real array)' % fname, f, [r22()])
            _reject(env, '%s(sparse matrix)' % fname, f, [env.sparse(q22('s'))])
        _reject(env, 'matrix_norm(real array, 1)', lambda a: U.matrix_norm(a, 1), [r22('r1')])
        _reject(env, 'matrix_norm(real array, inf)', lambda a: U.matrix_norm(a, env.np.inf), [r22('r2')])
        _reject(env, 'matrix_norm(sparse, 2)', lambda a: U.matrix_norm(a, 2), [env.sparse(q22('s2'))])
    elif row == 'norm_ord_symbolic':
        o = env.symstr('ord', 'nuc')
        A = q22()
        ok = (o == 'fro') | (o == 'F') | (o == 'inf') if env.symbolic else (o in ('fro', 'F', 'inf'))
        try:
            U.matrix_norm(A, o)
        except ValueError:
            env.holds('ValueError only for a string other than fro / F / inf', ~ok if env.symbolic else (not ok))
            return
        env.holds('a value is returned only for fro / F / inf', ok)
    elif row == 'embeddings':
        _reject(env, 'real_expand(real array)', U.real_expand, [r22()])
        _reject(env, 'real_expand(list)', U.real_expand, [[[1.0, 2.0], [3.0, 4.0]]])
        Rr = env.rarr('e', (8, 8))
        _reject(env, 'real_contract(8x8, m=2, n=3)', lambda r: U.real_contract(r, 2, 3), [Rr])
        _reject(env, 'real_contract(8x8, m=1, n=2)', lambda r: U.real_contract(r, 1, 2), [Rr])
        _accept(env, 'real_contract(8x8, 2, 2)', lambda r: U.real_contract(r, 2, 2), [Rr])
        _reject(env, 'complex adjoint(non-square)', U.quaternion_to_complex_adjoint, [q23()])
        _reject(env, 'complex adjoint(real array)', U.quaternion_to_complex_adjoint, [r22('r3')])
        _reject(env, 'complex adjoint(axis=y)', lambda a: U.quaternion_to_complex_adjoint(a, axis='y'), [q22('c')], (NotImplementedError,))
        _accept(env, 'complex adjoint(1x1)', U.quaternion_to_complex_adjoint, [env.qarr('d', (1, 1))])
    elif row == 'adjoint_axis_symbolic':
        ax = env.symstr('axis', 'z')
        A = q22()
        try:
            U.quaternion_to_complex_adjoint(A, axis=ax)
        except NotImplementedError:
            env.holds('NotImplementedError only for an axis other than x', ax != 'x')
            return
        env.holds('a value is returned only for axis x', ax == 'x')
    elif row == 'hermitian_det':
        _reject(env, 'ishermitian(non-square)', U.ishermitian, [q23()])
        for k in ('Moore', 'Dieudonne', 'Study'):
            _reject(env, 'det(non-square, %s)' % k, lambda a, k=k: U.det(a, k), [q23('b' + k)])
        _reject(env, 'det(non-Hermitian, Moore)', lambda a: U.det(a, 'Moore'), [_nonherm(env, 2, 'h')])
        _reject(env, 'det(Study)', lambda a: U.det(a, 'Study'), [q22('s')], (NotImplementedError,))
    elif row == 'det_type_symbolic':
        d = env.symstr('d', 'moore')
        A = env.qherm('a', 2, 'real')
        known = (d == 'Moore') | (d == 'Dieudonne') | (d == 'Dieudonné') | (d == 'Study') if env.symbolic else (d in ('Moore', 'Dieudonne', 'Dieudonné', 'Study'))
        if env.symbolic:
            old1, old2 = R.qsvd.classical_qsvd_full, R.decomp.quaternion_eigenvalues
            R.qsvd.classical_qsvd_full = lambda X: (None, env.rarr('s', (2,)), None)
            R.decomp.quaternion_eigenvalues = lambda X, *a, **k: env.rarr('lam', (2,))
        try:
            U.det(A, d)
        except ValueError:
            env.holds('ValueError only for an unknown determinant type', ~known if env.symbolic else (not known))
            return
        except NotImplementedError:
            env.holds('NotImplementedError only for Study', d == 'Study')
            return
        finally:
            if env.symbolic:
                R.qsvd.classical_qsvd_full, R.decomp.quaternion_eigenvalues = old1, old2
        env.holds('a value is returned only for a known type', known)
    elif row == 'null_side_symbolic':
        sd = env.symstr('side', 'top')
        A = q22()
        ok = (sd == 'right') | (sd == 'left') if env.symbolic else (sd in ('right', 'left'))
        if env.symbolic:
            old = R.qsvd.classical_qsvd_full
            R.qsvd.classical_qsvd_full = lambda X: (env.qarr('u', (2, 2)), env.rarr('s', (2,)), env.qarr('v', (2, 2)))
        try:
            U.quat_null_space(A, side=sd)
        except ValueError:
            env.holds('ValueError only for a side other than right / left', ~ok if env.symbolic else (not ok))
            return
        finally:
            if env.symbolic:
                R.qsvd.classical_qsvd_full = old
        env.holds('a value is returned only for right / left', ok)
    elif row == 'power_iteration':
        _reject(env, 'power_iteration(non-square)', U.power_iteration, [q23()])
        _reject(env, 'power_iteration(empty)', U.power_iteration, [env.qzeros((0, 0))])
        _reject(env, 'power_iteration_nonhermitian(non-square)', U.power_iteration_nonhermitian, [q32('n')])
    elif row == 'solvers_orientation':
        Sv = R.solver
        _reject(env, 'QGMRES(non-square A)', lambda a, b: Sv.QGMRESSolver().solve(a, b), [q23(), env.qarr('b', (2, 1))])
        _reject(env, 'QGMRES(non-square A, left_lu)', lambda a, b: Sv.QGMRESSolver(preconditioner='left_lu').solve(a, b),
                [env.qarr('a2', (2, 1), 'real'), env.qarr('b2', (2, 1), 'real')])
        _reject(env, 'RSP column variant(wide)', Sv.RandomizedSketchProjectPseudoinverse(max_iter=1).compute_column_variant, [q23('c')])
        _reject(env, 'RSP row variant(tall)', Sv.RandomizedSketchProjectPseudoinverse(max_iter=1).compute_row_variant, [q32('d')])
        _reject(env, 'Hybrid(wide)', Sv.HybridRSPNewtonSchulz(max_iter=1).compute, [q23('e')])
        _reject(env, 'CGNE(wide)', Sv.CGNEQSolver(max_iter=1).compute, [q23('f')])
        _reject(env, 'DeepLinear(layer mismatch)', lambda x: Sv.DeepLinearNewtonSchulz(max_iter=1).compute(x, [3, 2]), [q22('g')])
    elif row == 'lu_dtype':
        LU = R.LU
        for fname in ('quaternion_modulus', 'quaternion_triu', 'quaternion_tril', 'quaternion_lu'):
            _reject(env, '%s(real array)' % fname, getattr(LU, fname), [r22(fname)])
        _reject(env, 'quaternion_lu(list)', LU.quaternion_lu, [[[1.0, 2.0], [3.0, 4.0]]])
        _reject(env, 'quaternion_lu(zero matrix)', LU.quaternion_lu, [env.qzeros((2, 2))])
        _reject(env, 'quaternion_lu(zero first column)', LU.quaternion_lu, [env.qarr('z', (2, 2), lambda idx: 'zero' if idx[1] == 0 else 'full')])
        _accept(env, 'quaternion_lu(1x1)', LU.quaternion_lu, [env.qarr('o', (1, 1))])
        _accept(env, 'quaternion_lu(1x3)', LU.quaternion_lu, [env.qarr('w', (1, 3))])
    elif row == 'reductions_square':
        _reject(env, 'eigendecomposition(non-square)', R.eigen.quaternion_eigendecomposition, [q23()])
        _reject(env, 'eigenvalues(non-square)', R.eigen.quaternion_eigenvalues, [q32('b')])
        _reject(env, 'tridiagonalize(non-square)', R.tridiagonalize.tridiagonalize, [q23('c')])
        _reject(env, 'tridiagonalize(1x1)', R.tridiagonalize.tridiagonalize, [env.qherm('d', 1)])
        _reject(env, 'hessenbergize(non-square)', R.hessenberg.hessenbergize, [q23('e')])
        _reject(env, 'hessenbergize(1-D)', R.hessenberg.hessenbergize, [env.qarr('f', (3,))])
        _accept(env, 'hessenbergize(1x1)', R.hessenberg.hessenbergize, [env.qarr('g', (1, 1))])
        _accept(env, 'eigendecomposition(1x1 Hermitian)', R.eigen.quaternion_eigendecomposition, [env.qherm('h', 1)])
    elif row == 'hermitian_only':
        w, x = env.real('o_w'), env.real('o_x')
        env.assume(x * x >= (Fraction(1, 10 ** 6) if env.symbolic else 1e-6) * (1 + w * w), '1x1 entry non-real by a margin')
        one = cm.qmat_from_nested(env, [[[w, x, 0, 0]]])
        _reject(env, 'eigendecomposition(1x1 non-Hermitian)', R.eigen.quaternion_eigendecomposition, [one])
        _reject(env, 'eigenvalues(1x1 non-Hermitian)', R.eigen.quaternion_eigenvalues, [one])
        _reject(env, 'det(1x1 non-Hermitian, Moore)', lambda a: U.det(a, 'Moore'), [one])
        _reject(env, 'eigendecomposition(non-Hermitian)', R.eigen.quaternion_eigendecomposition, [_nonherm(env, 2, 'a')])
        _reject(env, 'tridiagonalize(non-Hermitian)', R.tridiagonalize.tridiagonalize, [_nonherm(env, 2, 'b')])
        _reject(env, 'eigenvectors(non-Hermitian)', R.eigen.quaternion_eigenvectors, [_nonherm(env, 2, 'c')])
    elif row == 'schur_square':
        Sc = R.schur
        for fname in ('quaternion_schur', 'quaternion_schur_pure', 'quaternion_schur_pure_implicit', 'quaternion_schur_unified', 'quaternion_schur_experimental'):
            _reject(env, '%s(non-square)' % fname, getattr(Sc, fname), [q23(fname[-4:])])
            _reject(env, '%s(1-D)' % fname, getattr(Sc, fname), [env.qarr('v' + fname[-4:], (3,))])
    elif row == 'tensor_guards':
        Tn = R.tensor
        _reject(env, 'tensor_unfold(order-2 input)', lambda t: Tn.tensor_unfold(t, 0), [q22()])
        _reject(env, 'tensor_unfold(real tensor)', lambda t: Tn.tensor_unfold(t, 0), [env.rarr('r', (2, 2, 2))])
        T = env.qarr('t', (2, 3, 2))
        for md in (3, -1, 7):
            _reject(env, 'tensor_unfold(mode=%d)' % md, lambda t, md=md: Tn.tensor_unfold(t, md), [T])
        M = env.qarr('m', (3, 4))
        for md, shp in [(0, (2, 3, 2)), (1, (2, 3, 3)), (2, (2, 3, 3)), (0, (3, 2, 3)), (5, (2, 3, 2)), (1, (3, 4, 1))]:
            _reject(env, 'tensor_fold(mode=%d, shape=%s) with a 3x4 matrix' % (md, shp), lambda m_, md=md, shp=shp: Tn.tensor_fold(m_, md, shp), [M])
        _accept(env, 'tensor_fold(mode=1, (2,3,2))', lambda m_: Tn.tensor_fold(m_, 1, (2, 3, 2)), [M])
        _accept(env, 'tensor_fold(mode=0, (3,2,2))', lambda m_: Tn.tensor_fold(m_, 0, (3, 2, 2)), [M])
        _accept(env, 'tensor_unfold singleton dims', lambda t: Tn.tensor_unfold(t, 2), [env.qarr('s', (1, 2, 1))])
    elif row == 'tensor_mode_symbolic':
        Tn = R.tensor
        md = env.symint('mode', 5)
        T = env.qarr('t', (2, 3, 2))
        ok = (md == 0) | (md == 1) | (md == 2) if env.symbolic else (md in (0, 1, 2))
        try:
            Tn.tensor_unfold(T, md)
        except ValueError:
            env.holds('unfold: ValueError only for a mode outside 0..2', ~ok if env.symbolic else (not ok))
        else:
            env.holds('unfold: a value is returned only for mode 0..2', ok)
        M = env.qarr('m', (3, 4))
        fits = (md == 1) if env.symbolic else (md == 1)       # (3,4) is the mode-1 unfolding of (2,3,2) only
        try:
            Tn.tensor_fold(M, md, (2, 3, 2))
        except ValueError:
            env.holds('fold: ValueError only when mode/shape do not match the matrix', ~fits if env.symbolic else (not fits))
        else:
            env.holds('fold: a value is returned only when mode/shape match the matrix', fits)
    elif row == 'imaging_guards':
        Q = R.qslst
        _reject(env, 'rgb_to_quat((2,2,4))', Q.rgb_to_quat, [env.rarr('a', (2, 2, 4))], (AssertionError,))
        _reject(env, 'rgb_to_quat((2,3))', Q.rgb_to_quat, [env.rarr('b', (2, 3))], (AssertionError,))
        _reject(env, 'quat_to_rgb((2,2,3))', Q.quat_to_rgb, [env.rarr('c', (2, 2, 3))], (AssertionError,))
        img = env.rarr('q', (2, 2, 4))
        psf = env.rarr('k', (1, 1))
        lam = Fraction(1, 10) if env.symbolic else 0.1
        _reject(env, 'apply_blur_fft(boundary=reflect)', lambda q, k: Q.apply_blur_fft(q, k, boundary='reflect'), [img, psf], (AssertionError,))
        _reject(env, 'qslst_restore_fft(boundary=zero)', lambda q, k: Q.qslst_restore_fft(q, k, lam, boundary='zero'), [img, psf], (AssertionError,))
        _reject(env, 'qslst_restore_matrix(A of wrong size)', lambda q, a: Q.qslst_restore_matrix(q, a, lam), [img, env.rarr('m', (3, 3))], (AssertionError,))
        _accept(env, 'apply_blur_fft(1x1 image)', lambda q, k: Q.apply_blur_fft(q, k), [env.rarr('o', (1, 1, 4)), psf])
        _accept(env, 'rgb_to_quat(1x1 image)', Q.rgb_to_quat, [env.rarr('p', (1, 1, 3))])
    elif row == 'boundary_symbolic':
        Q = R.qslst
        bd = env.symstr('boundary', 'reflect')
        img = env.rarr('q', (1, 2, 4))
        psf = env.rarr('k', (1, 1))
        try:
            Q.apply_blur_fft(img, psf, boundary=bd)
        except AssertionError:
            env.holds('AssertionError only for a boundary other than periodic', bd != 'periodic')
            return
        env.holds('a value is returned only for the periodic boundary', bd == 'periodic')
    elif row == 'in_domain_boundary':
        # boundary shapes of the documented domain must not trip a guard
        for shp in [(1, 1), (1, 3), (3, 1)]:
            A = env.qarr('a%d%d' % shp, shp, 'real')
            _accept(env, 'matrix_norm 1 on %dx%d' % shp, lambda a: U.matrix_norm(a, 1), [A])
            _accept(env, 'matrix_norm inf on %dx%d' % shp, lambda a: U.matrix_norm(a, env.np.inf), [A])
            _accept(env, 'real_expand on %dx%d' % shp, U.real_expand, [A])
            _accept(env, 'quat_hermitian on %dx%d' % shp, U.quat_hermitian, [A])
            _accept(env, 'quaternion_lu on %dx%d' % shp, lambda a: R.LU.quaternion_lu(a, return_p=True), [env.qarr('l%d%d' % shp, shp, lambda idx: 'real')]) if False else None
        _accept(env, 'ishermitian on 1x1', U.ishermitian, [env.qherm('h', 1)])
        _accept(env, 'NewtonSchulz on 1x3', R.solver.NewtonSchulzPseudoinverse(max_iter=1).compute, [_nz(env, env.qarr('n', (1, 3), 'real'))])
        _accept(env, 'HigherOrder NS on 3x1', R.solver.HigherOrderNewtonSchulzPseudoinverse(max_iter=1).compute, [env.qarr('m', (3, 1), 'real')])
        _accept(env, 'CGNE on 1x1', R.solver.CGNEQSolver(max_iter=1).compute, [_nz(env, env.qarr('c', (1, 1), 'real'))])


def _nz(env, A):
    env.assume(cm.frob2(env, A) >= (Fraction(1, 100) if env.symbolic else 0.01), '||A||^2 >= 0.01')
    return A


META = {
    'explanation': 'one symbolic run per (entry point, argument class) cell of the guard table: shapes and array kinds are concrete per class, values are '
                   'symbolic, enumerated options (norm type, determinant type, null-space side, unfolding mode, boundary, adjoint axis) are symbolic '
                   'strings / ints (z3 String / Int) so that every spelling is covered by one run; out-of-domain cells must raise on every path with all '
                   'arguments unchanged, in-domain boundary cells must not raise a guard exception on any path',
    'outside_claim': ['entry points and argument classes not listed in the table', 'guards inside third-party code', 'the preconditioner option of QGMRESSolver '
                      '(normalised with str.lower(), not modelled for symbolic strings)'],
    'assumptions': ['floats modelled as exact reals', '"non-Hermitian by a margin" = ||a01 - conj(a10)||^2 >= 1e-6 ||A||_F^2'],
}


def cells():
    out = []
    rows = [('norm_dtype', 'z'), ('norm_ord_symbolic', 'z'), ('embeddings', 'z'), ('adjoint_axis_symbolic', 'z'), ('hermitian_det', 'a'),
            ('det_type_symbolic', 'z'), ('null_side_symbolic', 'z'), ('power_iteration', 'z'), ('solvers_orientation', 'a'), ('lu_dtype', 'a'),
            ('reductions_square', 'a'), ('hermitian_only', 'a'), ('schur_square', 'z'), ('tensor_guards', 'z'), ('tensor_mode_symbolic', 'z'),
            ('imaging_guards', 'a'), ('boundary_symbolic', 'a'), ('in_domain_boundary', 'a')]
    for row, dom in rows:
        out.append(Cell('table[%s]' % row, 'c20:table', dict(row=row), domain=dom, timeout_s=1200, q_timeout_ms=10000, twin=False,
                        bounds='concrete shapes / kinds per class, symbolic values and option strings'))
    return out
