"""C16 - Givens QR of Hessenberg matrices and triangular solves are exact building blocks."""
from fractions import Fraction

from symex.runner import Cell
from . import common as cm
from .c02 import phi_blocked, tolists, matmul_lists, transpose_lists

PROP = 'C16'
EPS = Fraction(1, 2 ** 52)


def _vec(env, name, kind):
    """4-component real vector of a quaternion of the given kind"""
    q = env.quat(name, kind)
    return [q.w, q.x, q.y, q.z]


def _arr(env, v):
    return env.np.array(v) if env.symbolic else env.np.array([float(x) for x in v])


def ggivens(env, kind1='full', kind2='full'):
    U = env.R.utils
    x1, x2 = _vec(env, 'p', kind1), _vec(env, 'q', kind2)
    G = U.ggivens(_arr(env, env.twist(x1) if False else x1), _arr(env, x2))
    Gl = tolists(G)
    env.holds('G is 8x8', (len(Gl), len(Gl[0])) == (8, 8))
    GtG = matmul_lists(transpose_lists(Gl), Gl)
    if env.twin:
        Gl[0][0] = Gl[0][0] + 1
        GtG = matmul_lists(transpose_lists(Gl), Gl)
    env.eq('G^T G = I', GtG, [[1 if i == j else 0 for j in range(8)] for i in range(8)])
    # quaternion structure: G is the component-blocked real representation of a 2x2 quaternion matrix
    Qm = [[[Gl[c * 2 + i][j] for c in range(4)] for j in range(2)] for i in range(2)]
    env.eq('G has the quaternion block structure', Gl, phi_blocked(env, Qm))
    v = [x1[0], x2[0], x1[1], x2[1], x1[2], x2[2], x1[3], x2[3]]
    r = [sum((Gl[i][j] * v[i] for i in range(8)), 0) for j in range(8)]      # G^T v
    t2 = sum((x * x for x in v), 0)
    small = (t2 <= EPS * EPS) if env.symbolic else (float(t2) <= float(EPS) ** 2)
    if env.cond(small):
        env.eq('norm <= eps: identity rotation returned', Gl, [[1 if i == j else 0 for j in range(8)] for i in range(8)])
        return
    env.eq('G^T [x1;x2] has zero second entry and zero imaginary parts', r[1:], [0] * 7)
    env.eq('(G^T [x1;x2])_1 ^2 = |x1|^2 + |x2|^2', [r[0] * r[0]], [t2])
    env.le('(G^T [x1;x2])_1 >= 0', 0, r[0])


def grsgivens(env, form, kind='full'):
    U = env.R.utils
    g = _vec(env, 'g', kind)
    if form == 'vector':
        G = U.GRSGivens(_arr(env, g))
    else:
        G = U.GRSGivens(g[0], g[1], g[2], g[3])
    Gl = tolists(G)
    if env.twin:
        Gl[0][0] = Gl[0][0] + 1
    env.eq('G^T G = I', matmul_lists(transpose_lists(Gl), Gl), [[1 if i == j else 0 for j in range(4)] for i in range(4)])
    r = [sum((Gl[i][j] * g[i] for i in range(4)), 0) for j in range(4)]
    n2 = sum((x * x for x in g), 0)
    isid = all(_const_eq(env, Gl[i][j], 1 if i == j else 0) for i in range(4) for j in range(4))
    if isid:
        # documented degenerate outcome: identity when the imaginary part is negligible (allclose, atol 1e-8)
        im2 = g[1] * g[1] + g[2] * g[2] + g[3] * g[3]
        env.le('identity returned only if the imaginary part is negligible (|Im g|^2 <= 3*(1e-8)^2)', im2, 3 * Fraction(1e-8) ** 2 if env.symbolic else 3e-16, abs_slack=0.0)
    else:
        env.eq('G^T g has zero imaginary part', r[1:], [0, 0, 0])
        env.eq('(G^T g)_1 ^2 = |g|^2', [r[0] * r[0]], [n2])
        env.le('(G^T g)_1 >= 0', 0, r[0])


def _const_eq(env, v, c):
    if env.symbolic:
        from symex.scalar import K, lift
        v = lift(v)
        return isinstance(v, K) and v.v == c
    return float(v) == c


def hess_qr(env, k, pattern='generic', kind='full'):
    """(k+1) x k upper Hessenberg H: W R = H, W^H W = I, R upper triangular"""
    U = env.R.utils
    m = k + 1

    def kd(idx):
        i, j = idx
        if i > j + 1:
            return 'zero'
        if pattern == 'zero_subdiag' and i == j + 1:
            return 'zero'
        if pattern == 'zero_col' and j == 0:
            return 'zero'
        if pattern == 'real_subdiag' and i == j + 1:
            return 'real'
        return kind
    H = env.qarr('h', (m, k), kd)
    Hf = cm.comps(env, H)
    Hess = env.np.vstack([Hf[..., 0], Hf[..., 1], Hf[..., 2], Hf[..., 3]])
    if not env.symbolic:
        Hess = Hess.copy()
    tiny = []
    orig = U.ggivens
    if env.symbolic:
        def spy(x1, x2):
            G = orig(x1, x2)
            allzero = all(_const_eq(env, v, 0) for v in list(x1) + list(x2))
            isid = all(_const_eq(env, G[i, j], 1 if i == j else 0) for i in range(8) for j in range(8))
            if isid and not allzero:
                tiny.append(1)
            return G
        U.ggivens = spy
    try:
        W, R = U.Hess_QR_ggivens(Hess)
    finally:
        U.ggivens = orig
    env.holds('output shapes', tuple(W.shape) == (m, 4 * m) and tuple(R.shape) == (m, 4 * k))
    W0, W1, W2, W3 = U.A2A0123(W)
    R0, R1, R2, R3 = U.A2A0123(R)
    Wn = [[[W0[i, j], W1[i, j], W2[i, j], W3[i, j]] for j in range(m)] for i in range(m)]
    Rn = [[[R0[i, j], R1[i, j], R2[i, j], R3[i, j]] for j in range(k)] for i in range(m)]
    if env.twin:
        Rn[0][0][0] = Rn[0][0][0] + 1
    from .c07 import cm_matmul_nested
    WH = [[[Wn[j][i][0], -Wn[j][i][1], -Wn[j][i][2], -Wn[j][i][3]] for j in range(m)] for i in range(m)]
    env.eq('W^H W = I', cm_matmul_nested(WH, Wn), cm.eye_nested(m))
    if tiny:
        # a non-zero pair of norm <= eps was left un-rotated (documented degenerate outcome of the
        # rotation generator, checked in the ggivens cells): the factorisation is then only eps-accurate
        env.note('path with a tiny non-zero sub-column: exact W R = H not claimed')
        return
    env.eq('W R = H', cm_matmul_nested(Wn, Rn), cm.as_nested(env, H))
    for i in range(m):
        for j in range(k):
            if i > j:
                env.eq('R is upper triangular', Rn[i][j], [0, 0, 0, 0])


def abs_inv(env):
    U = env.R.utils
    q = env.quat('q')
    r, s0, s1, s2, s3 = U.absQsparse(q.w, q.x, q.y, q.z)
    n2 = q.w * q.w + q.x * q.x + q.y * q.y + q.z * q.z
    env.eq('absQsparse: r^2 = |q|^2', [r * r], [n2])
    env.le('absQsparse: r >= 0', 0, r)
    eps = EPS if env.symbolic else float(EPS)
    env.eq('absQsparse: s*(r+eps) = q', [s0 * (r + eps), s1 * (r + eps), s2 * (r + eps), s3 * (r + eps)], [q.w, q.x, q.y, q.z])
    i0, i1, i2, i3 = U.dotinvQsparse(env.twist(q.w), q.x, q.y, q.z)
    # inverse up to the regularisation it documents:  inv * (|q|^2 + reg) = conj(q)
    prod = cm.qmul_c([i0, i1, i2, i3], [q.w, q.x, q.y, q.z])
    env.eq('dotinvQsparse: inv*q is real', prod[1:], [0, 0, 0])
    env.assume(n2 >= Fraction(1, 10 ** 12), '|q| >= 1e-6') if env.symbolic else env.assume(float(n2) >= 1e-12, '|q| >= 1e-6')
    if env.symbolic:
        env.assume(n2 <= Fraction(10 ** 12), '|q| <= 1e6')
    # accuracy over the documented range of diagonal moduli 1e-6..1e6
    env.le('dotinvQsparse: 1 - inv*q <= 1e-10 for |q| in [1e-6, 1e6]', 1 - prod[0], Fraction(1, 10 ** 10) if env.symbolic else 1e-10)
    env.le('dotinvQsparse: inv*q <= 1', prod[0], 1)


def _tri(env, name, n, upper, kind='full', dkind=None):
    def kd(idx):
        i, j = idx
        if (upper and i > j) or (not upper and i < j):
            return 'zero'
        if i == j and dkind:
            return dkind
        return kind
    return env.qarr(name, (n, n), kd)


def _row_residual(env, Tn, Xn, Bn, n, nrhs, i, c):
    """(T X - B)[i, c] and the row's remainder r = B[i,c] - sum_{j != i} T_ij X_jc"""
    acc = [0, 0, 0, 0]
    for j in range(n):
        if j == i:
            continue
        t = cm.qmul_c(Tn[i][j], Xn[j][c])
        acc = [a + b for a, b in zip(acc, t)]
    rem = [b - a for a, b in zip(acc, Bn[i][c])]
    full = cm.qmul_c(Tn[i][i], Xn[i][c])
    res = [f - r for f, r in zip(full, rem)]
    return res, rem


def _solve(env, which, T, B, n, nrhs):
    """run the routine under test; returns X as nested comps"""
    S_ = env.R.solver
    U = env.R.utils
    if which == 'lower':
        return cm.as_nested(env, S_._solve_lower_triangular_quat(T, B))
    if which == 'upper':
        return cm.as_nested(env, S_._solve_upper_triangular_quat(T, B))
    Tf, Bf = cm.comps(env, T), cm.comps(env, B)
    b = [Bf[..., c].copy() for c in range(4)]
    x0, x1, x2, x3 = U.UtriangleQsparse(Tf[..., 0], Tf[..., 1], Tf[..., 2], Tf[..., 3], b[0], b[1], b[2], b[3])
    return [[[x0[i, c], x1[i, c], x2[i, c], x3[i, c]] for c in range(nrhs)] for i in range(n)]


def tri_solve_1x1(env, which, kind='full'):
    """the scalar step d x = b: (i) x(d,b) = x(d,1) * b exactly (left inverse applied from the
    left, linear in b); (ii) accuracy over the documented range of diagonal moduli:
    |d x(d,1) - 1| <= 1e-10 (the routines regularise d^-1 as conj(d)/(|d|^2 + reg))"""
    T = env.qarr('t', (1, 1), kind)
    B = env.qarr('b', (1, 1), kind)
    Tn, Bn = cm.as_nested(env, T), cm.as_nested(env, B)
    d2 = sum((x * x for x in Tn[0][0]), 0)
    lo, hi = (Fraction(1, 10 ** 12), Fraction(10 ** 12)) if env.symbolic else (1e-12, 1e12)
    env.assume(d2 >= lo, '|t_ii| >= 1e-6')
    env.assume(d2 <= hi, '|t_ii| <= 1e6')
    One = cm.qmat_from_nested(env, [[[1, 0, 0, 0]]])
    X1 = _solve(env, which, env.twist(T), One, 1, 1)
    Xb = _solve(env, which, T, B, 1, 1)
    env.eq('x(d,b) = x(d,1) * b', Xb[0][0], cm.qmul_c(X1[0][0], Bn[0][0]))
    res = [f - r for f, r in zip(cm.qmul_c(Tn[0][0], X1[0][0]), [1, 0, 0, 0])]
    r2 = sum((x * x for x in res), 0)
    tol = Fraction(1, 10 ** 10) if env.symbolic else 1e-10
    env.le('|d x(d,1) - 1| <= 1e-10 for |d| in [1e-6, 1e6]', r2, tol * tol, abs_slack=0.0)


def tri_solve(env, which, n, nrhs, kind='full', dkind=None):
    """substitution structure: every entry of X is the routine's own scalar step applied to
    the remainder B_i - sum_{j != i} T_ij X_j (exact rational identity), for any number of
    right-hand sides; with the 1x1 accuracy clause this gives T X = B row by row"""
    upper = which in ('upper', 'component')
    T = _tri(env, 't', n, upper, kind, dkind)
    B = env.qarr('b', (n, nrhs), kind)
    Tn, Bn = cm.as_nested(env, T), cm.as_nested(env, B)
    lo, hi = (Fraction(1, 10 ** 12), Fraction(10 ** 12)) if env.symbolic else (1e-12, 1e12)
    for i in range(n):
        d2 = sum((x * x for x in Tn[i][i]), 0)
        env.assume(d2 >= lo, '|t_ii| >= 1e-6')
        env.assume(d2 <= hi, '|t_ii| <= 1e6')
    Xn = _solve(env, which, env.twist(T), B, n, nrhs)
    env.holds('solution shape', len(Xn) == n and len(Xn[0]) == nrhs)
    if env.symbolic:
        for i in range(n):
            for c in range(nrhs):
                res, rem = _row_residual(env, Tn, Xn, Bn, n, nrhs, i, c)
                Ti = cm.qmat_from_nested(env, [[Tn[i][i]]])
                Ri = cm.qmat_from_nested(env, [[rem]])
                step = _solve(env, which, Ti, Ri, 1, 1)
                env.eq('X[%d,%d] = scalar step applied to B_i - sum_{j!=i} T_ij X_j' % (i, c), Xn[i][c], step[0][0])
    else:
        tol = 1e-9
        for i in range(n):
            for c in range(nrhs):
                res, rem = _row_residual(env, Tn, Xn, Bn, n, nrhs, i, c)
                r2 = sum((x * x for x in res), 0)
                m2 = sum((x * x for x in rem), 0)
                env.le('row %d, rhs %d: |(T X - B)_i| <= 1e-9 * |B_i - sum_{j!=i} T_ij X_j|' % (i, c), r2, tol * tol * m2, abs_slack=0.0)


def tri_mismatch(env):
    U = env.R.utils
    R = [env.rarr('r%d' % c, (2, 2)) for c in range(4)]
    b = [env.rarr('b%d' % c, (3, 1)) for c in range(4)]
    env.raises('UtriangleQsparse rejects inconsistent sizes', lambda: U.UtriangleQsparse(*R, *b), (ValueError,))


META = {
    'explanation': 'bounded symbolic execution of ggivens, GRSGivens, Hess_QR_ggivens, absQsparse, dotinvQsparse, UtriangleQsparse and the dense '
                   'forward/backward substitutions on fully symbolic quaternions; sqrt/division handled by the normalising AlgReal domain, every '
                   'branch (ordering branch, tiny-norm branch, identity branch, zero sub-diagonals) and every clause decided by z3',
    'outside_claim': ['Hessenberg QR for k >= 3', 'triangular systems with n >= 4', 'rounding',
                      'the zero-diagonal branch of UtriangleQsparse (singular systems are outside the property)'],
    'assumptions': ['floats modelled as exact reals', 'diagonal moduli of triangular systems in [1e-6, 1e6] (the property\'s range)'],
}


def cells():
    out = []
    for k1, k2, tier in [('full', 'full', 'quick'), ('full', 'zero', 'quick'), ('zero', 'full', 'quick'), ('real', 'real', 'quick'),
                         ('pure', 'full', 'thorough'), ('full', 'real', 'quick'), ('zero', 'zero', 'quick'), ('complex', 'complex', 'thorough')]:
        out.append(Cell('ggivens[%s,%s]' % (k1, k2), 'c16:ggivens', dict(kind1=k1, kind2=k2), domain='a', tier=tier, timeout_s=900,
                        q_timeout_ms=10000, twin=(k1 == 'real'), twin_timeout_s=300, bounds='x1 %s, x2 %s quaternion, symbolic' % (k1, k2)))
    for form in ('vector', 'scalars'):
        for kind in ('full', 'real', 'pure', 'complex'):
            out.append(Cell('grsgivens[%s,%s]' % (form, kind), 'c16:grsgivens', dict(form=form, kind=kind), domain='a', timeout_s=600,
                            twin=(kind == 'complex'), bounds='g a symbolic %s quaternion' % kind))
    for k, pattern, kind, tier in [(1, 'generic', 'full', 'quick'), (1, 'zero_subdiag', 'full', 'quick'), (1, 'zero_col', 'full', 'quick'),
                                   (1, 'real_subdiag', 'full', 'quick'), (2, 'generic', 'real', 'quick'), (2, 'real_subdiag', 'complex', 'thorough'),
                                   (2, 'generic', 'full', 'thorough'), (2, 'zero_subdiag', 'full', 'thorough'), (2, 'zero_col', 'full', 'thorough'),
                                   (3, 'generic', 'real', 'thorough')]:
        out.append(Cell('hess_qr[k=%d,%s,%s]' % (k, pattern, kind), 'c16:hess_qr', dict(k=k, pattern=pattern, kind=kind), domain='a', tier=tier,
                        timeout_s=1800 if tier == 'thorough' else 900, q_timeout_ms=10000, max_paths=3000, twin=(k == 1 and pattern == 'real_subdiag'),
                        twin_timeout_s=300, bounds='(k+1) x k Hessenberg, pattern %s, entries %s' % (pattern, kind)))
    out.append(Cell('abs_inv', 'c16:abs_inv', {}, domain='a', twin=True, bounds='one symbolic quaternion, |q| in [1e-6,1e6]'))
    for which in ('lower', 'upper', 'component'):
        out.append(Cell('tri_solve_1x1[%s]' % which, 'c16:tri_solve_1x1', dict(which=which), domain='a', timeout_s=900, ob_timeout_ms=60000,
                        twin=True, bounds='d, b symbolic quaternions, |d| in [1e-6,1e6]'))
        for n, nrhs, kind, tier in [(2, 1, 'full', 'quick'), (2, 2, 'full', 'quick'), (3, 1, 'full', 'quick'), (3, 3, 'complex', 'quick'),
                                    (3, 2, 'full', 'thorough'), (4, 4, 'complex', 'thorough'), (4, 1, 'full', 'thorough')]:
            out.append(Cell('tri_solve[%s,n=%d,rhs=%d,%s]' % (which, n, nrhs, kind), 'c16:tri_solve', dict(which=which, n=n, nrhs=nrhs, kind=kind),
                            domain='a', tier=tier, timeout_s=900, twin=(n == 2 and nrhs == 1), twin_timeout_s=300,
                            bounds='T %dx%d triangular and B %dx%d symbolic (%s)' % (n, n, n, nrhs, kind)))
    out.append(Cell('tri_mismatch', 'c16:tri_mismatch', {}, domain='z', twin=False, bounds='2x2 system with a 3x1 right-hand side'))
    return out
