"""C18 - tensor unfold/fold, colour <-> quaternion mappings, metrics, noise."""
from symex.runner import Cell
from . import common as cm

PROP = 'C18'


def _q4(x):
    return [x.w, x.x, x.y, x.z]


def unfold_fold(env, I, J, K, mode):
    T = env.qarr('t', (I, J, K))
    Tn = env.R.tensor
    dims = (I, J, K)
    M = Tn.tensor_unfold(env.twist(T), mode)
    others = [a for a in range(3) if a != mode]
    cols = dims[others[0]] * dims[others[1]]
    env.holds('unfold shape = (dim_n, prod others)', tuple(M.shape) == (dims[mode], cols))
    # index-level definition: column = C-order index over the remaining axes (original order)
    got, want = [], []
    for r in range(dims[mode]):
        for a in range(dims[others[0]]):
            for b in range(dims[others[1]]):
                idx = [0, 0, 0]
                idx[mode] = r
                idx[others[0]] = a
                idx[others[1]] = b
                got.append(_q4(M[r, a * dims[others[1]] + b]))
                want.append(_q4(T[tuple(idx)]))
    env.eq('unfold(T,n)[i_n, c] = T[index] (mode-n fibres are the columns)', got, want)
    back = Tn.tensor_fold(Tn.tensor_unfold(T, mode), mode, dims)
    env.holds('fold shape', tuple(back.shape) == dims)
    env.eq('fold(unfold(T,n),n,shape) = T',
           [_q4(back[i, j, k]) for i in range(I) for j in range(J) for k in range(K)],
           [_q4(T[i, j, k]) for i in range(I) for j in range(J) for k in range(K)])
    if env.domain != 'f':
        M0 = Tn.tensor_unfold(T, mode)
        n1 = Tn.tensor_frobenius_norm(M0)
        n0 = Tn.tensor_frobenius_norm(T)
        env.eq('||unfold(T)||_F^2 = sum of squared components', n1 ** 2, cm.frob2(env, T))
        env.eq('||T||_F^2 = sum of squared components', n0 ** 2, cm.frob2(env, T))
        aT = Tn.tensor_entrywise_abs(T)
        aM = Tn.tensor_entrywise_abs(M0)
        env.holds('entrywise abs shapes', tuple(aT.shape) == dims and tuple(aM.shape) == (dims[mode], cols))
        sqT, sqM, defn = [], [], []
        for r in range(dims[mode]):
            for a in range(dims[others[0]]):
                for b in range(dims[others[1]]):
                    idx = [0, 0, 0]
                    idx[mode] = r
                    idx[others[0]] = a
                    idx[others[1]] = b
                    sqT.append(aT[tuple(idx)] ** 2)
                    sqM.append(aM[r, a * dims[others[1]] + b] ** 2)
                    q = T[tuple(idx)]
                    defn.append(q.w * q.w + q.x * q.x + q.y * q.y + q.z * q.z)
        env.eq('entrywise moduli of T from the definition', sqT, defn)
        env.eq('entrywise moduli preserved by unfolding', sqM, defn)


def colour(env, H, W, clip):
    Q = env.R.qslst
    x = env.rarr('x', (H, W, 3))
    r = env.real('r')
    if clip:
        for v in x.reshape(-1):
            env.assume(v >= 0, 'x >= 0')
            env.assume(v <= 1, 'x <= 1')
    q = Q.rgb_to_quat(env.twist(x), real_part=r)
    env.holds('rgb_to_quat shape (H,W,4)', tuple(q.shape) == (H, W, 4))
    env.eq('real part plane = real_part', [q[i, j, 0] for i in range(H) for j in range(W)], [r] * (H * W))
    env.eq('imaginary planes = R,G,B', [q[i, j, 1 + c] for i in range(H) for j in range(W) for c in range(3)],
           [x[i, j, c] for i in range(H) for j in range(W) for c in range(3)])
    q0 = Q.rgb_to_quat(x, real_part=r)
    back = Q.quat_to_rgb(q0) if clip else Q.quat_to_rgb(q0, clip=False)
    env.holds('quat_to_rgb shape (H,W,3)', tuple(back.shape) == (H, W, 3))
    env.eq('quat_to_rgb(rgb_to_quat(x)) = x', [back[i, j, c] for i in range(H) for j in range(W) for c in range(3)],
           [x[i, j, c] for i in range(H) for j in range(W) for c in range(3)])
    # split / stack
    parts = Q.split_quat_channels(q0)
    env.holds('split gives 4 planes of shape (H,W)', len(parts) == 4 and all(tuple(p.shape) == (H, W) for p in parts))
    st = Q.stack_quat_channels(*parts)
    env.eq('stack(split(q)) = q', [st[i, j, c] for i in range(H) for j in range(W) for c in range(4)],
           [q0[i, j, c] for i in range(H) for j in range(W) for c in range(4)])
    planes = [env.rarr('p%d' % c, (H, W)) for c in range(4)]
    sp = Q.split_quat_channels(Q.stack_quat_channels(*planes))
    env.eq('split(stack(planes)) = planes', [sp[c][i, j] for c in range(4) for i in range(H) for j in range(W)],
           [planes[c][i, j] for c in range(4) for i in range(H) for j in range(W)])


def metrics(env, n, same):
    """psnr / relative_error are zero-distance-consistent"""
    Q = env.R.qslst
    inf = float('inf')
    y = env.rarr('y', (1, n))
    x = y.copy() if same else env.rarr('x', (1, n))
    xi = env.twist(x)
    p = Q.psnr(xi, y)
    alleq = True
    for i in range(n):
        alleq = alleq & (x[0, i] == y[0, i]) if env.symbolic else (alleq and bool(x[0, i] == y[0, i]))
    is_inf = isinstance(p, float) and p == inf
    if is_inf:
        env.holds('psnr = +inf only if the arrays are equal', alleq)
    else:
        env.holds('psnr finite only if the arrays differ', ~alleq if env.symbolic else (not alleq))
    e = Q.relative_error(xi, y)
    e_inf = isinstance(e, float) and e == inf
    ynorm2 = 0
    for i in range(n):
        ynorm2 = ynorm2 + y[0, i] * y[0, i]
    if e_inf:
        env.holds('relative_error = inf only if ||x_ref|| = 0', ynorm2 == 0)
    else:
        env.holds('relative_error finite only if ||x_ref|| != 0', ynorm2 != 0)
        d2 = 0
        for i in range(n):
            d2 = d2 + (x[0, i] - y[0, i]) * (x[0, i] - y[0, i])
        env.eq('relative_error^2 = ||x - x_ref||^2 / ||x_ref||^2', e ** 2 * ynorm2, d2)
        if env.symbolic:
            env.holds('relative_error = 0 iff arrays equal', ((e == 0) & alleq) | ((e != 0) & ~alleq))
        else:
            env.holds('relative_error = 0 iff arrays equal', (e == 0) == alleq)


def awgn(env, H, W, snr_db, zero):
    Q = env.R.qslst
    shape = (H, W, 4)
    Qa = env.rarr('q', shape) if not zero else env.rconst([[[0.0] * 4] * W] * H)
    Z = env.rarr('z', shape)
    calls = []

    class FakeRng:
        def normal(self, loc, scale, size=None):
            calls.append((loc, scale, tuple(size) if size is not None else None))
            return loc + scale * Z

    out = Q.add_awgn_snr(env.twist(Qa), snr_db, rng=FakeRng())
    power = 0
    for v in Qa.reshape(-1):
        power = power + v * v
    if not calls:
        env.holds('no noise drawn only for a zero-power signal', power == 0)
        env.eq('zero signal returned unchanged', list(out.reshape(-1)), list(Qa.reshape(-1)))
        return
    env.holds('exactly one draw of the right size', len(calls) == 1 and calls[0][2] == shape)
    loc, scale, _ = calls[0]
    env.eq('noise mean 0', [loc], [0])
    snr = 10.0 ** (snr_db / 10.0)
    size = H * W * 4
    env.eq('sigma^2 = ||Q||^2 / (snr * size)', scale ** 2 * (snr * size), power)
    env.le('sigma >= 0', 0, scale)
    env.eq('output = Q + noise', [(o - q) for o, q in zip(out.reshape(-1), Qa.reshape(-1))],
           [scale * z for z in Z.reshape(-1)])


META = {
    'explanation': 'bounded symbolic execution of tensor_unfold/fold, tensor norms, rgb_to_quat/quat_to_rgb, split/stack, psnr, '
                   'relative_error, add_awgn_snr; index-level clauses and round trips over the reals and bit-precisely over IEEE binary64',
    'outside_claim': ['tensor dimensions > 3, images > 2x2', 'the values of log10 / 10**x (opaque symbols): only the +inf / zero cases of the metrics are claimed',
                      'that the Gaussian generator itself has the requested variance (only the sigma passed to it is checked)'],
    'assumptions': ['floats modelled as exact reals except in the *_ieee cells'],
}


def cells():
    out = []
    shapes = [(I, J, K) for I in (1, 2, 3) for J in (1, 2, 3) for K in (1, 2, 3)]
    quick = {(1, 1, 1), (2, 3, 1), (1, 2, 3), (3, 1, 2), (2, 2, 2), (3, 2, 1), (2, 3, 2)}
    for sh in shapes:
        for mode in range(3):
            tier = 'quick' if sh in quick else 'thorough'
            out.append(Cell('unfold_fold[%dx%dx%d,mode=%d]' % (sh + (mode,)), 'c18:unfold_fold',
                            dict(I=sh[0], J=sh[1], K=sh[2], mode=mode), domain='z', tier=tier,
                            twin=(sh == (2, 3, 2)), bounds='all %d quaternion entries symbolic' % (sh[0] * sh[1] * sh[2])))
    for sh in [(2, 3, 1), (1, 2, 3), (3, 1, 2), (2, 3, 2)]:
        for mode in range(3):
            out.append(Cell('unfold_fold_ieee[%dx%dx%d,mode=%d]' % (sh + (mode,)), 'c18:unfold_fold',
                            dict(I=sh[0], J=sh[1], K=sh[2], mode=mode), domain='f', tier='quick', twin=False,
                            bounds='every component an arbitrary binary64 value'))
    for sh in [(1, 1), (1, 2), (2, 1), (2, 2)]:
        out.append(Cell('colour_noclip[%dx%d]' % sh, 'c18:colour', dict(H=sh[0], W=sh[1], clip=False), domain='z',
                        twin=(sh == (1, 2)), bounds='all pixel values and the real part symbolic (any value range)'))
        out.append(Cell('colour_noclip_ieee[%dx%d]' % sh, 'c18:colour', dict(H=sh[0], W=sh[1], clip=False), domain='f',
                        twin=False, bounds='all pixel values arbitrary binary64'))
    for sh in [(1, 1), (1, 2), (2, 2)]:
        out.append(Cell('colour_clip[%dx%d]' % sh, 'c18:colour', dict(H=sh[0], W=sh[1], clip=True), domain='z',
                        twin=False, bounds='pixel values symbolic in [0,1], default clip=True', timeout_s=300))
    for n in (1, 2, 3):
        for same in (False, True):
            out.append(Cell('metrics[n=%d,%s]' % (n, 'same' if same else 'free'), 'c18:metrics', dict(n=n, same=same), domain='a',
                            twin=False, bounds='two 1x%d real arrays symbolic%s' % (n, ' (identical)' if same else ''), timeout_s=300))
    for sh, snr, zero in [((1, 1), 20.0, False), ((1, 2), 10.0, False), ((1, 1), 0.0, True), ((2, 1), 30.0, False)]:
        out.append(Cell('awgn[%dx%d,snr=%g%s]' % (sh + (snr, ',zero' if zero else '')), 'c18:awgn',
                        dict(H=sh[0], W=sh[1], snr_db=snr, zero=zero), domain='a', twin=(not zero and sh == (1, 1)),
                        bounds='signal and unit draws symbolic; snr_db concrete', timeout_s=300))
    return out
