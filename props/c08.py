"""C08 - Hermitian tridiagonalisation and eigendecomposition are exact unitary reductions."""
from fractions import Fraction

from symex.runner import Cell
from . import common as cm
from .c07 import cm_matmul_nested

PROP = 'C08'


def _herm_nested(N):
    m, n = len(N), len(N[0])
    return [[[N[i][j][0], -N[i][j][1], -N[i][j][2], -N[i][j][3]] for i in range(m)] for j in range(n)]


def reflector(env, K, kinds=None, row=False):
    """householder_matrix(a, e1): unitary, maps a to a real multiple of e1 (|.| = ||a||),
    on every branch (zero vector, zero first entry)"""
    T = env.R.tridiagonalize
    kinds = kinds or ['full'] * K
    shape = (K,)
    a = env.qarr('a', shape, lambda idx: kinds[idx[0]])
    e1 = env.np.zeros(K)
    e1[0] = 1.0
    if row:
        a2 = a.reshape(1, K) if env.symbolic else a.reshape(1, K)
        e2 = e1.reshape(1, K)
        # row-vector form is selected by shape (1,K): len(a) is then 1 in the code -> only K = 1 is meaningful
    H = T.householder_matrix(env.twist(a), e1)
    env.holds('reflector shape', tuple(H.shape) == (K, K))
    Hn = cm.as_nested(env, H)
    if env.twin:
        pass
    env.eq('H^H H = I', cm_matmul_nested(_herm_nested(Hn), Hn), cm.eye_nested(K))
    an = [[[a[i].w, a[i].x, a[i].y, a[i].z]] for i in range(K)]
    y = cm_matmul_nested(Hn, an)
    for i in range(1, K):
        env.eq('(H a)_%d = 0' % i, y[i][0], [0, 0, 0, 0])
    env.eq('(H a)_0 is real', y[0][0][1:], [0, 0, 0])
    n2 = sum((x * x for r in an for x in r[0]), 0)
    env.eq('|(H a)_0|^2 = ||a||^2', [y[0][0][0] * y[0][0][0]], [n2])


def tridiag(env, n, kind='full', pattern=None):
    """tridiagonalize(A) for Hermitian A: P A P^H = B, P unitary, B real symmetric tridiagonal"""
    T = env.R.tridiagonalize
    k = kind if pattern is None else (lambda idx: pattern[idx[0]][idx[1]])
    A = env.qherm('a', n, k)
    P, B = T.tridiagonalize(env.twist(A))
    env.holds('shapes', tuple(P.shape) == (n, n) and tuple(B.shape) == (n, n))
    Pn, Bn, An = cm.as_nested(env, P), cm.as_nested(env, B), cm.as_nested(env, A)
    env.eq('P^H P = I', cm_matmul_nested(_herm_nested(Pn), Pn), cm.eye_nested(n))
    PAPh = cm_matmul_nested(cm_matmul_nested(Pn, An), _herm_nested(Pn))
    env.eq('P A P^H = B (nothing non-negligible is discarded by the clean-up)', PAPh, Bn)
    for i in range(n):
        for j in range(n):
            env.eq('B is real', Bn[i][j][1:], [0, 0, 0])
            if abs(i - j) > 1:
                env.eq('B is tridiagonal', Bn[i][j], [0, 0, 0, 0])
            if j > i:
                env.eq('B is symmetric', [Bn[i][j][0]], [Bn[j][i][0]])


def tridiag_guards(env, case):
    T = env.R.tridiagonalize
    if case == 'nonsquare':
        A = env.qarr('a', (2, 3))
        env.raises('non-square input rejected', lambda: T.tridiagonalize(A), (ValueError,))
    elif case == 'too_small':
        A = env.qherm('a', 1)
        env.raises('1x1 input rejected', lambda: T.tridiagonalize(A), (ValueError,))
    elif case == 'nonhermitian':
        from .c20 import _nonherm
        A = _nonherm(env, 2, 'a')
        env.raises('non-Hermitian input rejected', lambda: T.tridiagonalize(A), (ValueError,))
        env.raises('non-Hermitian input rejected by the eigendecomposition', lambda: env.R.eigen.quaternion_eigendecomposition(A), (ValueError,))


def eigen_glue(env, n, kind='full'):
    """eigendecomposition glue around the LAPACK eig call on the real tridiagonal matrix:
    with eig replaced by a contract stub (B W = W diag(lam), lam real) the routine returns
    lam and V = P^H W, hence A V = V diag(lam)"""
    E = env.R.eigen
    A = env.qherm('a', n, kind)
    if not env.symbolic:
        lam, V = E.quaternion_eigendecomposition(A)
        Vn, An = cm.as_nested(env, V), cm.as_nested(env, A)
        AV = cm_matmul_nested(An, Vn)
        VL = [[[Vn[i][j][c] * float(lam[j].real) for c in range(4)] for j in range(n)] for i in range(n)]
        env.eq('A V = V diag(lambda)', AV, VL, tol=1e-6)
        return
    seen = {}

    def eig_stub(Bc):
        seen['B'] = Bc
        lam = env.rarr('lam', (n,))
        W = env.rarr('w', (n, n))
        # contract of eig on the matrix it was given: B W = W diag(lam)
        for i in range(n):
            for j in range(n):
                lhs = 0
                for l in range(n):
                    b = Bc[i, l]
                    lhs = lhs + (b.re if hasattr(b, 're') else b) * W[l, j]
                env.assume(lhs == W[i, j] * lam[j], 'eig contract: B W = W diag(lambda)')
        seen['lam'], seen['W'] = lam, W
        return lam, W
    env.stub_linalg('eig', eig_stub)
    lam, V = E.quaternion_eigendecomposition(env.twist(A))
    env.eq('eigenvalues returned are those of the tridiagonal solve', list(lam), list(seen['lam']))
    # the matrix handed to eig is real (imaginary parts identically zero)
    for i in range(n):
        for j in range(n):
            b = seen['B'][i, j]
            env.eq('matrix passed to eig is real', [b.im if hasattr(b, 'im') else 0], [0])
    Vn, An = cm.as_nested(env, V), cm.as_nested(env, A)
    AV = cm_matmul_nested(An, Vn)
    VL = [[[Vn[i][j][c] * seen['lam'][j] for c in range(4)] for j in range(n)] for i in range(n)]
    env.eq('A V = V diag(lambda) (from the eig contract)', AV, VL)


def eigen_1x1(env):
    E = env.R.eigen
    A = env.qherm('a', 1)
    lam, V = E.quaternion_eigendecomposition(env.twist(A))
    l0 = lam[0]
    env.eq('1x1: eigenvalue is the (real) entry', [l0.real if not env.symbolic else (l0.re if hasattr(l0, 're') else l0)], [A[0, 0].w])
    env.eq('1x1: eigenvector is 1', cm.as_nested(env, V), [[[1, 0, 0, 0]]])


META = {
    'explanation': 'bounded symbolic execution of householder_vector/householder_matrix (all degenerate branches), internal_tridiagonalizer, '
                   'check_tridiagonal, tridiagonalize and the glue of quaternion_eigendecomposition; nested square roots handled by the AlgReal domain',
    'outside_claim': ['n >= 4 (n = 3 only with entries in the complex subfield / real axis unless the full case finishes in thorough)',
                      'that V is unitary and the spectrum correct: this is LAPACK\'s non-symmetric eig on the tridiagonal matrix (contract stub: '
                      'B W = W diag(lambda), lambda real); repeated eigenvalues in particular', 'rounding, scaling by 1e+-8 as a rounding question'],
    'assumptions': ['floats modelled as exact reals', 'np.linalg.eig satisfies B W = W diag(lambda) with real lambda (eigen glue cells only)'],
}


def cells():
    out = []
    for K, kinds, tier in [(1, ['full'], 'quick'), (1, ['zero'], 'quick'), (2, ['full', 'full'], 'quick'), (2, ['zero', 'full'], 'quick'),
                           (2, ['full', 'zero'], 'quick'), (2, ['zero', 'zero'], 'quick'), (2, ['real', 'real'], 'quick'),
                           (3, ['real', 'real', 'real'], 'quick'), (3, ['complex', 'complex', 'complex'], 'thorough'),
                           (3, ['full', 'full', 'full'], 'thorough'), (3, ['zero', 'full', 'full'], 'thorough'), (3, ['full', 'zero', 'zero'], 'quick')]:
        out.append(Cell('reflector[K=%d,%s]' % (K, '/'.join(kinds)), 'c08:reflector', dict(K=K, kinds=kinds), domain='a', tier=tier,
                        timeout_s=1800 if tier == 'thorough' else 900, q_timeout_ms=10000, twin=False,
                        bounds='vector of %d quaternions (%s), all degenerate branches' % (K, ', '.join(kinds))))
    for n, kind, tier in [(2, 'full', 'quick'), (2, 'real', 'quick'), (3, 'real', 'thorough'), (3, 'complex', 'thorough'), (3, 'full', 'thorough')]:
        out.append(Cell('tridiag[n=%d,%s]' % (n, kind), 'c08:tridiag', dict(n=n, kind=kind), domain='a', tier=tier,
                        timeout_s=2400 if tier == 'thorough' else 900, q_timeout_ms=10000, twin=(n == 2 and kind == 'full'), twin_timeout_s=300,
                        bounds='Hermitian %dx%d, off-diagonal entries %s' % (n, n, kind)))
    Z, F, R = 'zero', 'full', 'real'
    for name, pat in [('zero_subcol', [[R, Z, Z], [Z, R, F], [Z, F, R]]), ('diagonal', [[R, Z, Z], [Z, R, Z], [Z, Z, R]]),
                      ('tridiag_already', [[R, R, Z], [R, R, R], [Z, R, R]]), ('tridiag_quaternion_offdiag', [[R, F, Z], [F, R, F], [Z, F, R]]),
                      ('tridiag_complex_offdiag', [[R, 'complex', Z], ['complex', R, 'complex'], [Z, 'complex', R]]), ('arrow', [[R, Z, R], [Z, R, Z], [R, Z, R]])]:
        out.append(Cell('tridiag[n=3,%s]' % name, 'c08:tridiag', dict(n=3, pattern=pat), domain='a',
                        tier='thorough' if name == 'tridiag_quaternion_offdiag' else 'quick', timeout_s=2400 if name == 'tridiag_quaternion_offdiag' else 900,
                        q_timeout_ms=10000, twin=False, bounds='Hermitian 3x3 with sparsity pattern %s' % name))
    for case in ('nonsquare', 'too_small', 'nonhermitian'):
        out.append(Cell('guards[%s]' % case, 'c08:tridiag_guards', dict(case=case), domain='a', twin=False, timeout_s=600,
                        bounds='symbolic entries'))
    for n, kind, tier in [(2, 'full', 'thorough'), (2, 'real', 'quick'), (3, 'real', 'thorough')]:
        out.append(Cell('eigen_glue[n=%d,%s]' % (n, kind), 'c08:eigen_glue', dict(n=n, kind=kind), domain='a', tier=tier, timeout_s=1800, q_timeout_ms=10000,
                        twin=(n == 2 and kind == 'real'), twin_timeout_s=300, bounds='Hermitian %dx%d (%s); eig = contract stub' % (n, n, kind)))
    out.append(Cell('eigen_1x1', 'c08:eigen_1x1', {}, domain='a', twin=True, bounds='1x1 Hermitian'))
    return out
