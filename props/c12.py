"""C12 - randomized / pass-efficient Q-SVD, sketch width 1 (R = 1, oversample = 0).

With one sketch column every LAPACK call of the two routines has an EXACT contract stub: the QR of an
m x 1 quaternion column y is Q = y/||y||, R = ||y||, and the real 4x4 embedding of the 1x1 quaternion
r handed to np.linalg.svd is |r| times an orthogonal matrix, whose SVD is (any orthogonal W, |r| four
times, W^T phi(r)/|r|) - only the first column w of W (any unit 4-vector) is read by the contraction.
So the whole pipeline (sketch, power iterations / passes, final QR, SVD, contraction, lift) runs
symbolically and the property clauses are decided for every matrix, every Gaussian draw and every
admissible choice of LAPACK's singular basis."""
from fractions import Fraction

from symex.runner import Cell
from . import common as cm
from .c02 import phi_interleaved
from .c07 import cm_matmul_nested
from .c08 import _herm_nested
from .c13 import _qr_stub_thin1, _f2, _sub

PROP = 'C12'


def _svd_stub_1x1(env, basis):
    from symex import scalar as S
    state = {'calls': 0}

    def stub(a, full_matrices=True, compute_uv=True, **kw):
        if kw or not compute_uv:
            raise S.Unsupported('np.linalg.svd called with options the contract stub does not model: %r' % (kw,))
        if tuple(a.shape) != (4, 4):
            raise S.Unsupported('svd stub: only the 4x4 embedding of a 1x1 quaternion (sketch width 1) is modelled, got %r' % (tuple(a.shape),))
        state['calls'] += 1
        n2 = sum((a[i, 0] * a[i, 0] for i in range(4)), 0)
        if bool(S.lift(n2) == 0):
            raise S.DivByZeroEvent('projected 1x1 matrix is zero')
        sg = S.sqrt(n2)
        if basis == 'unit':
            W = env.rarr('w%d' % state['calls'], (4, 4))
            env.assume(sum((W[i, 0] * W[i, 0] for i in range(4)), 0) == 1, 'first column of LAPACK\'s left singular basis is a unit vector')
        else:
            # one admissible basis: W = phi(r)/|r| itself (then Vt = I)
            W = env.rconst_obj([[a[i, j] / sg for j in range(4)] for i in range(4)])
        Vt = env.rconst_obj([[sum((W[l, i] * a[l, j] for l in range(4)), 0) / sg for j in range(4)] for i in range(4)])
        return W, env.rconst_obj([[sg] * 4])[0], Vt
    return stub, state


def _input(env, m, n, kind, rank1):
    if rank1:
        a = env.qarr('a', (m, 1), kind)
        b = env.qarr('b', (n, 1), kind)
        an, bn = cm.as_nested(env, a), cm.as_nested(env, b)
        Xn = cm_matmul_nested(an, _herm_nested(bn))
        return cm.qmat_from_nested(env, Xn), Xn
    X = env.qarr('x', (m, n), kind)
    return X, cm.as_nested(env, X)


def _conc_clauses(env, X, U, s, V, R, exact_rank=None, tag='', orth=True):
    import numpy as np
    ut = env.R.utils
    m, n = X.shape
    env.holds(tag + 'shapes', tuple(U.shape) == (m, R) and tuple(V.shape) == (n, R) and len(s) == R)
    sig = np.linalg.svd(ut.real_expand(X), compute_uv=False)[::4]
    fro = float(np.sqrt(np.sum(sig ** 2)))
    scale = max(fro, 1e-300)
    if orth:
        env.eq(tag + 'U^H U = I', cm.as_nested(env, ut.quat_matmat(ut.quat_hermitian(U), U)), cm.eye_nested(R), tol=1e-7)
        env.eq(tag + 'V^H V = I', cm.as_nested(env, ut.quat_matmat(ut.quat_hermitian(V), V)), cm.eye_nested(R), tol=1e-7)
    env.holds(tag + 's non-negative and non-increasing', all(s[i] >= -1e-9 * scale for i in range(R)) and all(s[i] >= s[i + 1] - 1e-9 * scale for i in range(R - 1)))
    env.holds(tag + 's_i <= sigma_i(A)', all(s[i] <= sig[i] + 1e-7 * scale for i in range(min(R, len(sig)))))
    Sm = cm.qmat_from_nested(env, [[[float(s[i]) if i == j else 0.0, 0.0, 0.0, 0.0] for j in range(R)] for i in range(R)])
    rec = ut.quat_matmat(ut.quat_matmat(U, Sm), ut.quat_hermitian(V))
    err = float(np.sqrt(_f2(_sub(cm.as_nested(env, X), cm.as_nested(env, rec)))))
    ey = float(np.sqrt(np.sum(sig[R:] ** 2)))
    env.holds(tag + 'Eckart-Young optimum <= error <= ||A||_F', ey - 1e-7 * scale <= err <= fro + 1e-7 * scale)
    if exact_rank is not None and exact_rank <= R:
        env.holds(tag + 'rank(A) <= R: the decomposition is exact', err <= 1e-6 * scale)


def _battery(env, which, X, kw):
    """real-library side only: the property-level clauses for wider sketches, on matrices derived from the model's entries
    (rank-1 and rank-2 products of its columns padded with fixed rationals)"""
    import numpy as np
    Qs, ut = env.R.qsvd, env.R.utils
    f = getattr(Qs, which)
    Xf = env.quaternion.as_float_array(X)
    m, n = X.shape
    rs = np.random.RandomState(5)
    for (M, N, rank, R, P) in [(4, 3, 1, 1, 0), (4, 3, 1, 2, 1), (3, 4, 2, 2, 0), (5, 4, 2, 2, 2), (4, 4, 4, 2, 1), (3, 5, 3, 1, 1), (8, 6, 2, 2, 0), (9, 7, 3, 3, 1)]:
        L = rs.randn(M, rank, 4)
        Rt = rs.randn(rank, N, 4)
        if M >= 8:
            # graded spectrum 1, 1e-3, 1e-6 on exactly orthogonal directions (a sketch narrower than the matrix): exactness for
            # rank(A) <= R has to survive the power iterations in floating point (seeded change C12-e)
            L[...] = 0.0
            Rt[...] = 0.0
            for r_ in range(rank):
                L[r_, r_, 0] = 10.0 ** (-3 * r_)
                Rt[r_, r_, 0] = 1.0
                L[M - 1 - r_, r_, 1] = 10.0 ** (-3 * r_)
        L[:m, 0, :] += Xf[:, 0, :][:M] * (1e-3 if M >= 8 else 1.0)
        B = ut.quat_matmat(env.quaternion.as_quat_array(L), env.quaternion.as_quat_array(Rt))
        if not np.all(np.isfinite(env.quaternion.as_float_array(B))):
            continue
        for kw2 in (kw, {}):        # the cell's step count and the routine's default (2 power iterations / 2 passes)
            np.random.seed(11)
            U, s, V = f(B, R, oversample=P, **kw2)
            # orthonormality is only claimed when the sketch has full column rank (rank(A) >= R + P): for a rank-deficient sketch the
            # basis LAPACK returns for the null directions need not be quaternion-structured (observed: pass_eff_qsvd, 4x3 rank 1, R=2, P=1)
            _conc_clauses(env, B, U, s, V, R, exact_rank=rank, tag='[battery %dx%d rank %d R=%d P=%d %s] ' % (M, N, rank, R, P, kw2 or 'defaults'), orth=(rank >= R + P))
    

def sketch1(env, which, m, n, steps, kind='full', rank1=False, basis='unit', battery=False):
    """which = 'rand_qsvd' (steps = n_iter) or 'pass_eff_qsvd' (steps = n_passes >= 2), R = 1, oversample = 0"""
    Qs = env.R.qsvd
    X, Xn = _input(env, m, n, kind, rank1)
    kw = {'n_iter': steps} if which == 'rand_qsvd' else {'n_passes': steps}
    if not env.symbolic:
        import numpy as np
        np.random.seed(3)
        if not np.any(env.quaternion.as_float_array(X)):
            return
        U, s, V = getattr(Qs, which)(X, 1, oversample=0, **kw)
        _conc_clauses(env, X, U, s, V, 1, exact_rank=1 if (rank1 or min(m, n) == 1) else None)
        if battery:
            _battery(env, which, X, kw)
        return
    qstub, qstate = _qr_stub_thin1(env)
    sstub, sstate = _svd_stub_1x1(env, basis)
    env.stub_scipy_linalg('qr', qstub)
    env.stub_linalg('svd', sstub)
    U, s, V = getattr(Qs, which)(env.twist(X), 1, oversample=0, **kw)
    want_qr = (2 + 2 * steps) if which == 'rand_qsvd' else steps
    # how many factorisations are used is an implementation choice, not part of the property: recorded, not demanded
    # (seeded change C12-e replaces the per-step re-orthonormalisation by one QR: exact in real arithmetic)
    env.note('QR calls %d (documented algorithm: %d), SVD calls %d' % (qstate['calls'], want_qr, sstate['calls']))
    env.holds('shapes: U m x 1, V n x 1, one value', tuple(U.shape) == (m, 1) and tuple(V.shape) == (n, 1) and len(s) == 1)
    Un, Vn = cm.as_nested(env, U), cm.as_nested(env, V)
    s0 = s[0]
    env.eq('U has a unit-norm column', [_f2(Un)], [1])
    env.eq('V has a unit-norm column', [_f2(Vn)], [1])
    env.holds('s >= 0', s0 >= 0)
    x2 = _f2(Xn)
    rec = cm_matmul_nested(cm_matmul_nested(Un, [[[s0, 0, 0, 0]]]), _herm_nested(Vn))
    err2 = _f2(_sub(Xn, rec))
    env.eq('||A - U s V^H||_F^2 = ||A||_F^2 - s^2 (s is the projection U^H A V; hence error <= ||A||_F)', [err2], [x2 - s0 * s0])
    env.holds('s^2 <= ||A||_F^2%s' % (' = sigma_1(A)^2' if (rank1 or min(m, n) == 1) else ' (weaker than s <= sigma_1 for rank > 1)'), s0 * s0 <= x2)
    if rank1 or min(m, n) == 1:
        env.eq('rank(A) <= 1 = R: A = U s V^H for every draw that does not annihilate A', rec, Xn)


META = {
    'explanation': 'bounded symbolic execution of rand_qsvd / pass_eff_qsvd for sketch width 1 (R = 1, oversample = 0) with EXACT contract stubs for the '
                   'two LAPACK calls (QR of an m x 1 quaternion column; SVD of the 4x4 embedding of a 1x1 quaternion with an arbitrary unit first '
                   'basis vector): decides unit-norm U and V, s >= 0, ||A - U s V^H||^2 = ||A||^2 - s^2 (so s = U^H A V and the error is at most '
                   '||A||_F), s <= ||A||_F (= sigma_1 for vectors and rank-1 input) and exactness for rank(A) <= 1, for every A, every Gaussian draw '
                   'and every admissible singular basis; 0..1 power iterations, 2..3 passes',
    'outside_claim': ['sketch width R + oversample >= 2: the QR / SVD calls then act on blocks whose LAPACK factorisation is not fixed by its contract and '
                      'cannot be encoded; covered only by the tolerance-based real-library battery that runs with every path witness (not a solver verdict)',
                      's_i <= sigma_i(A) for a general matrix (sigma_1 is not a polynomial of the entries): decided as s <= ||A||_F; exact sigma_1 only for '
                      'vector-shaped and rank-1 input; checked numerically against LAPACK on the witness points',
                      'draws that annihilate the sketch (A Omega = 0 or the projected 1x1 matrix = 0): division-by-zero event of the exact stubs; the real '
                      'LAPACK returns an arbitrary basis there',
                      'orthonormality of U, V when rank(A) < R + oversample (rank-deficient sketch): depends on the basis LAPACK returns for the null '
                      'directions. Observed with the real library (not by the solver): pass_eff_qsvd(4x3 rank-1, R=2, oversample=1, n_passes=2) returns U with '
                      '||U^H U - I||_F = 0.34 - see DESIGN.md section 6',
                      'pass_eff_qsvd with one pass (the property speaks of two or more)', 'rounding'],
    'assumptions': ['scipy.linalg.qr of the embedding of an m x 1 column y = (phi(y/||y||) | arbitrary fill, phi(||y||)) (exact stub, positive diagonal)',
                    'np.linalg.svd of the 4x4 embedding phi(r) = (W, |r| x 4, W^T phi(r)/|r|) with the first column of W an arbitrary unit vector (basis=unit) or '
                    'W = phi(r)/|r| (basis=canonical)', 'RNG draws are arbitrary reals', 'floats modelled as exact reals'],
}


def cells():
    out = []
    big = dict(domain='a', q_timeout_ms=10000, ob_timeout_ms=60000, max_paths=200, events='outside')
    rows = [
        # which, m, n, steps, kind, rank1, basis, tier
        ('rand_qsvd', 1, 1, 0, 'full', False, 'unit', 'quick'),
        ('rand_qsvd', 2, 1, 0, 'full', False, 'canonical', 'quick'),
        ('rand_qsvd', 1, 2, 0, 'full', False, 'canonical', 'quick'),
        ('rand_qsvd', 2, 2, 0, 'real', False, 'canonical', 'quick'),
        ('rand_qsvd', 2, 2, 0, 'real', True, 'canonical', 'quick'),
        ('rand_qsvd', 1, 1, 1, 'full', False, 'canonical', 'quick'),
        ('rand_qsvd', 2, 2, 1, 'real', False, 'canonical', 'thorough'),
        ('rand_qsvd', 2, 2, 0, 'complex', False, 'canonical', 'thorough'),
        ('rand_qsvd', 2, 2, 0, 'real', False, 'unit', 'thorough'),
        ('rand_qsvd', 2, 2, 0, 'full', False, 'canonical', 'thorough'),
        ('rand_qsvd', 3, 2, 0, 'real', True, 'canonical', 'thorough'),
        ('pass_eff_qsvd', 1, 1, 2, 'full', False, 'unit', 'quick'),
        ('pass_eff_qsvd', 2, 1, 2, 'full', False, 'canonical', 'quick'),
        ('pass_eff_qsvd', 1, 2, 2, 'full', False, 'canonical', 'quick'),
        ('pass_eff_qsvd', 2, 2, 2, 'real', False, 'canonical', 'quick'),
        ('pass_eff_qsvd', 2, 2, 2, 'real', True, 'canonical', 'quick'),
        ('pass_eff_qsvd', 1, 1, 3, 'full', False, 'canonical', 'quick'),
        ('pass_eff_qsvd', 2, 2, 3, 'real', False, 'canonical', 'quick'),
        ('pass_eff_qsvd', 2, 2, 4, 'real', False, 'canonical', 'thorough'),
        ('pass_eff_qsvd', 2, 2, 2, 'complex', False, 'canonical', 'thorough'),
        ('pass_eff_qsvd', 2, 2, 2, 'real', False, 'unit', 'thorough'),
        ('pass_eff_qsvd', 2, 2, 2, 'full', False, 'canonical', 'thorough'),
        ('pass_eff_qsvd', 3, 2, 3, 'real', True, 'canonical', 'thorough'),
    ]
    for which, m, n, steps, kind, rank1, basis, tier in rows:
        first = (m, n, kind, rank1) == (2, 2, 'real', False) and tier == 'quick' and steps in (0, 2)
        out.append(Cell('%s[%dx%d%s,%s,%s=%d,svd basis %s]' % (which, m, n, ' rank-1' if rank1 else '', kind, 'n_iter' if which == 'rand_qsvd' else 'n_passes', steps, basis),
                        'c12:sketch1', dict(which=which, m=m, n=n, steps=steps, kind=kind, rank1=rank1, basis=basis, battery=first), tier=tier,
                        timeout_s=420 if tier == 'quick' else 1500, twin=first, twin_timeout_s=300,
                        bounds='A %dx%d (%s%s) symbolic, R = 1, oversample = 0, %d %s, all Gaussian draws symbolic' % (
                            m, n, kind, ', rank 1 = a b^H' if rank1 else '', steps, 'power iteration(s)' if which == 'rand_qsvd' else 'passes'), **big))
    return out
