"""C07 - LU with partial pivoting reproduces A in both output modes, loud when singular."""
from symex.runner import Cell
from . import common as cm

PROP = 'C07'


def _nested_perm_apply(P, A):
    """(P A) for nested component lists, P a 0/1 matrix given as nested quaternion comps"""
    return cm_matmul_nested(P, A)


def cm_matmul_nested(X, Y):
    m, k, n = len(X), len(Y), len(Y[0])
    out = []
    for i in range(m):
        row = []
        for j in range(n):
            acc = [0, 0, 0, 0]
            for l in range(k):
                t = cm.qmul_c(X[i][l], Y[l][j])
                acc = [a + b for a, b in zip(acc, t)]
            row.append(acc)
        out.append(row)
    return out


def _is_const(env, v, c):
    """syntactic constant check usable in both modes"""
    if env.symbolic:
        from symex.scalar import K, lift
        v = lift(v)
        return isinstance(v, K) and v.v == c
    return float(v) == c


def lu(env, m, n, kind='full', mode=3, pattern=None):
    LU = env.R.LU
    k = kind if pattern is None else (lambda idx: pattern[idx[0]][idx[1]])
    A = env.qarr('a', (m, n), k)
    N = min(m, n)
    An = cm.as_nested(env, A)
    try:
        if mode == 3:
            L, U, P = LU.quaternion_lu(env.twist(A), return_p=True)
        else:
            L, U = LU.quaternion_lu(env.twist(A))
    except ValueError as e:
        env.holds('only the zero-pivot ValueError may be raised', 'Zero pivot' in str(e))
        return
    env.holds('factor shapes', tuple(L.shape) == (m, N) and tuple(U.shape) == (N, n))
    Ln, Un = cm.as_nested(env, L), cm.as_nested(env, U)
    LUn = cm_matmul_nested(Ln, Un)
    if mode == 3:
        env.holds('P shape', tuple(P.shape) == (m, m))
        Pn = cm.as_nested(env, P)
        # permutation matrix: entries are the constants 0/1, one 1 per row and column
        ok = True
        for i in range(m):
            ones_r = 0
            ones_c = 0
            for j in range(m):
                e = Pn[i][j]
                if not all(_is_const(env, e[c], 0) for c in (1, 2, 3)) or not (_is_const(env, e[0], 0) or _is_const(env, e[0], 1)):
                    ok = False
                ones_r += 1 if _is_const(env, e[0], 1) else 0
                ones_c += 1 if _is_const(env, Pn[j][i][0], 1) else 0
            ok = ok and ones_r == 1 and ones_c == 1
        env.holds('P is a permutation matrix', ok)
        env.eq('P A = L U', cm_matmul_nested(Pn, An), LUn)
        # L unit lower trapezoidal with multipliers of modulus <= 1
        for i in range(m):
            for j in range(N):
                e = Ln[i][j]
                if i == j:
                    env.eq('L has unit diagonal', e, [1, 0, 0, 0])
                elif j > i:
                    env.eq('L is lower trapezoidal', e, [0, 0, 0, 0])
                else:
                    env.le('|l_%d%d|^2 <= 1 (partial pivoting)' % (i, j), sum((x * x for x in e), 0), 1)
    else:
        env.eq('A = L U (two-output mode, row-permuted L)', An, LUn)
    for i in range(N):
        for j in range(n):
            if j < i:
                env.eq('U is upper trapezoidal', Un[i][j], [0, 0, 0, 0])


def helpers(env, m, n, koff):
    LU = env.R.LU
    A = env.qarr('a', (m, n))
    An = cm.as_nested(env, A)
    T = LU.quaternion_triu(env.twist(A), koff)
    L = LU.quaternion_tril(A, koff)
    Tn, Ln = cm.as_nested(env, T), cm.as_nested(env, L)
    env.eq('triu keeps j >= i+k and zeroes the rest', Tn, [[An[i][j] if j >= i + koff else [0, 0, 0, 0] for j in range(n)] for i in range(m)])
    env.eq('tril keeps j <= i+k and zeroes the rest', Ln, [[An[i][j] if j <= i + koff else [0, 0, 0, 0] for j in range(n)] for i in range(m)])
    M = LU.quaternion_modulus(A)
    env.eq('modulus^2 = w^2+x^2+y^2+z^2', [M[i, j] ** 2 for i in range(m) for j in range(n)],
           [sum((x * x for x in An[i][j]), 0) for i in range(m) for j in range(n)])


META = {
    'explanation': 'bounded symbolic execution of quaternion_lu (both output modes), quaternion_modulus, quaternion_triu/tril. The pivot search is '
                   'executed symbolically (lazy square roots: moduli are compared through their squares), so every feasible row-interchange '
                   'sequence of a shape is a path of the run, found by z3 feasibility checks instead of constructed inputs; P A = L U / A = L U are '
                   'rational-function identities per path',
    'outside_claim': ['full quaternion entries for m >= 3 beyond the listed cells (entries restricted to the real axis / complex subfield there)',
                      'm >= 5; growth factor and backward error; rounding',
                      'the absolute 1e-15 threshold as a singularity test (only "raise => ValueError(Zero pivot)" and "return => exact factorisation" are checked)'],
    'assumptions': ['floats modelled as exact reals'],
}


def cells():
    out = []
    full = [(1, 1), (1, 2), (1, 3), (2, 1), (2, 2), (2, 3), (3, 1)]
    for (m, n) in full:
        for mode in (3, 2):
            out.append(Cell('lu[%dx%d,full,%d-output]' % (m, n, mode), 'c07:lu', dict(m=m, n=n, kind='full', mode=mode), domain='a',
                            tier='quick', timeout_s=600, max_paths=2000, twin=((m, n) == (2, 2)), twin_timeout_s=300,
                            bounds='A %dx%d, all 4 components of every entry symbolic; all pivot paths' % (m, n)))
    for (m, n), kind, tier in [((3, 2), 'real', 'quick'), ((2, 3), 'real', 'quick'), ((3, 3), 'real', 'quick'), ((3, 2), 'complex', 'thorough'),
                               ((3, 3), 'complex', 'thorough'), ((4, 3), 'real', 'thorough'), ((3, 4), 'real', 'thorough'), ((4, 4), 'real', 'thorough'),
                               ((3, 2), 'full', 'thorough'), ((4, 2), 'real', 'thorough'), ((4, 1), 'full', 'quick')]:
        for mode in (3, 2):
            out.append(Cell('lu[%dx%d,%s,%d-output]' % (m, n, kind, mode), 'c07:lu', dict(m=m, n=n, kind=kind, mode=mode), domain='a',
                            tier=tier, timeout_s=1800 if tier == 'thorough' else 900, max_paths=5000, twin=False,
                            bounds='A %dx%d, entries symbolic in the %s; all pivot paths' % (m, n, {'real': 'real axis', 'complex': 'complex subfield', 'full': 'full quaternions'}[kind])))
    for (m, n, k) in [(2, 2, 0), (3, 3, 1), (3, 2, -1), (2, 3, 0)]:
        out.append(Cell('helpers[%dx%d,k=%d]' % (m, n, k), 'c07:helpers', dict(m=m, n=n, koff=k), domain='z', twin=(k == 0 and m == 2 and n == 2),
                        bounds='A symbolic'))
    return out
