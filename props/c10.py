"""C10 - every Schur variant preserves the similarity A = Q T Q^H (compositional check)."""
from fractions import Fraction

from symex.runner import Cell
from . import common as cm
from .c02 import phi_blocked
from .c07 import cm_matmul_nested
from .c08 import _herm_nested

PROP = 'C10'
TOL = Fraction(1, 10 ** 10)


def _install_stubs(env, n, kind, P0mode, unitary=False):
    """replace the kernels by fresh symbolic matrices; returns a dict with what was handed out"""
    Sc = env.R.schur
    rec = {'hh': [], 'gg': [], 'ev': 0, 'orig': {}}
    for name in ('hessenbergize', 'householder_matrix', 'ggivens', '_estimate_shifts_power_deflate', 'check_hessenberg'):
        rec['orig'][name] = getattr(Sc, name)

    rec['zeroed'] = 0            # entries that were not syntactically zero and were overwritten by the constant 0 (deflation)
    rec['zeroed_before_kernel'] = 0   # ... counted at the last kernel (reflector / rotation) call: > 0 means a sweep FOLLOWED a deflation

    def _c0(x):
        return (isinstance(x, (int, float)) and x == 0) or (hasattr(x, 'isconst') and x.isconst() and x.v == 0)

    def set_hook(arr, idx, v):
        from symex import shim
        if not (isinstance(idx, tuple) and len(idx) == 2 and all(isinstance(t, int) for t in idx)):
            return
        try:
            cs = shim._qcomps(v)
        except BaseException:
            return
        if cs is None or not all(_c0(c) for c in cs):
            return
        cur = arr.F[idx]
        if not all(_c0(c) for c in cur):
            rec['zeroed'] += 1
    if env.symbolic:
        from symex import shim as _shim
        _shim.QArr._set_hook = staticmethod(set_hook)

    def hess_stub(A):
        # H0 upper Hessenberg (symbolic), P0 = I or symbolic; the harness defines A := P0^H H0 P0 only for P0 = I
        rec['A_in'] = A
        if P0mode == 'identity':
            P0 = cm.qmat_from_nested(env, cm.eye_nested(n))
            H0 = A.copy()
        else:
            P0 = env.qarr('p0', (n, n), kind)
            H0 = env.qarr('h0', (n, n), lambda idx: kind if idx[0] <= idx[1] + 1 else 'zero')
        rec['P0'], rec['H0'] = P0, H0
        return P0, H0

    def hh_stub(col, e1):
        rec['zeroed_before_kernel'] = rec['zeroed']
        k = len(rec['hh'])
        m = len(col)
        if unitary:
            # explicit-shift variants add the shift back after the sweep (H <- R Q + sigma I), so their
            # similarity needs W W^H = I: W = I - 2 v v^T / v^T v, an arbitrary (rationally parametrised) reflector
            v = [env.real('v%d_%d' % (k, i)) for i in range(m)]
            vv = sum((x * x for x in v), 0)
            env.assume(vv >= Fraction(1, 100), '|v|^2 >= 0.01')
            W = cm.qmat_from_nested(env, [[[(1 if i == j else 0) - 2 * v[i] * v[j] / vv, 0, 0, 0] for j in range(m)] for i in range(m)])
        else:
            W = env.qarr('w%d' % k, (m, m), kind)
        rec['hh'].append((col, W))
        return W

    def gg_stub(x1, x2):
        rec['zeroed_before_kernel'] = rec['zeroed']
        # the real-block variant adds the shift back after the sweep, so its similarity needs G^T G = I:
        # G = an arbitrary plane rotation, rationally parametrised (c, s) = ((1-t^2), 2t)/(1+t^2)
        k = len(rec['gg'])
        t = env.real('t%d' % k)
        c, s_ = (1 - t * t) / (1 + t * t), 2 * t / (1 + t * t)
        Gq = cm.qmat_from_nested(env, [[[c, 0, 0, 0], [-s_, 0, 0, 0]], [[s_, 0, 0, 0], [c, 0, 0, 0]]])
        rec['gg'].append(Gq)
        return env.rconst_obj(phi_blocked(env, Gq))

    def shifts_stub(H, steps=5):
        return [env.real('sh%d' % i) for i in range(H.shape[0])]

    def eigvals_stub(B):
        rec['ev'] += 1
        return env.rarr('ev%d_' % rec['ev'], (2,))

    Sc.hessenbergize = hess_stub
    Sc.householder_matrix = hh_stub
    Sc.ggivens = gg_stub
    Sc._estimate_shifts_power_deflate = shifts_stub
    env.stub_linalg('eigvals', eigvals_stub)
    return rec


def _restore(env, rec):
    Sc = env.R.schur
    for name, f in rec['orig'].items():
        setattr(Sc, name, f)
    from symex import shim as _shim
    _shim.QArr._set_hook = None


def _run_variant(env, variant, A, iters):
    Sc = env.R.schur
    kw = dict(max_iter=iters, tol=TOL if env.symbolic else float(TOL), return_diagnostics=True)
    fam, _, opt = variant.partition(':')
    if fam == 'schur':
        return Sc.quaternion_schur(A, shift=opt, **kw)
    if fam == 'pure':
        return Sc.quaternion_schur_pure(A, shift_mode=opt, **kw)
    if fam == 'implicit':
        return Sc.quaternion_schur_pure_implicit(A, shift_mode=opt, **kw)
    if fam == 'unified':
        v, _, pre = opt.partition('/')
        return Sc.quaternion_schur_unified(A, variant=v, precompute_shifts=(pre != 'noshifts'), **kw)
    if fam == 'experimental':
        return Sc.quaternion_schur_experimental(A, variant=opt, **kw)
    raise ValueError(variant)


def _needs_unitary(variant):
    return variant in ('pure:rayleigh', 'unified:rayleigh')


def _conc_battery(env, variant, mats, budgets, n):
    """concrete side: the real kernels and the real LAPACK - the property itself (Q unitary, Q T Q^H = A up to the deflation tolerance)"""
    tolf = float(TOL)
    for name, M in mats:
        for budget in budgets:
            Q, T, diag = _run_variant(env, variant, M, budget)
            Qn, Tn, Mn = cm.as_nested(env, Q), cm.as_nested(env, T), cm.as_nested(env, M)
            env.eq('Q^H Q = I (%s, budget %d)' % (name, budget), cm_matmul_nested(_herm_nested(Qn), Qn), cm.eye_nested(n), tol=1e-8)
            R_ = cm_matmul_nested(cm_matmul_nested(Qn, Tn), _herm_nested(Qn))
            err2 = sum(((a - b) ** 2 for r1, r2 in zip(R_, Mn) for e1, e2 in zip(r1, r2) for a, b in zip(e1, e2)), 0)
            nrm2 = sum((a * a for r in Mn for e in r for a in e), 0)
            env.le('||Q T Q^H - A||_F <= 1e3 tol max(1, ||A||_F) (%s, budget %d)' % (name, budget), err2, (1e3 * tolf) ** 2 * max(1.0, nrm2), slack=0.0, abs_slack=1e-22)


def _generic(env, n, kind):
    """a fixed generic n x n matrix (deterministic), real or full quaternion"""
    import numpy as np
    rng = np.random.RandomState(1000 + n)
    G = rng.randn(n, n, 4)
    if kind == 'real':
        G[..., 1:] = 0.0
    return cm.qmat_from_nested(env, [[[float(G[i, j, c]) for c in range(4)] for j in range(n)] for i in range(n)])


def similarity(env, variant, n, iters, kind='real'):
    """with the kernels replaced by arbitrary symbolic matrices the update H <- M H M^H, Q <- Q M^H keeps
    T = Q^H A Q as a polynomial identity (no unitarity needed); entries of T that differ from Q^H A Q are
    exactly the ones zeroed by deflation, and those were small"""
    A = env.qarr('a', (n, n), lambda idx: kind if idx[0] <= idx[1] + 1 else 'zero')
    if not env.symbolic:
        # real kernels, real LAPACK: the property itself, with a tol-based bound, on the model input and on its
        # Hermitian part (deflation decisions are most delicate for normal matrices); budgets 1 and 200
        import numpy as np
        U = env.R.utils
        _conc_battery(env, variant, [('model input', A), ('Hermitian part of the model input', (A + U.quat_hermitian(A)) * 0.5 + np.diag(np.arange(n)).astype(float) * env.q(1, 0, 0, 0))],
                      (max(iters, 1), 200), n)
        return
    rec = _install_stubs(env, n, kind, 'identity', unitary=_needs_unitary(variant))
    try:
        Q, T, diag = _run_variant(env, variant, env.twist(A), iters)
    finally:
        _restore(env, rec)
    env.holds('shapes', tuple(Q.shape) == (n, n) and tuple(T.shape) == (n, n))
    if rec['zeroed_before_kernel'] > 0:
        # a sub-diagonal entry that was not identically zero was deflated and ANOTHER sweep followed: from then on T = Q^H A Q holds only
        # up to the (tol-sized) deflated entry propagated by the later transformations - an exact identity would demand more than the
        # property states.  Such paths are covered by the real-library side of the cell (tolerance-based), not by the polynomial identity
        env.note('deflation followed by a further sweep on this path: exact polynomial identity not claimed')
        return
    Qn, Tn, An = cm.as_nested(env, Q), cm.as_nested(env, T), cm.as_nested(env, A)
    S_ = cm_matmul_nested(cm_matmul_nested(_herm_nested(Qn), An), Qn)

    def mod2(e):
        return sum((x * x for x in e), 0)

    def bound(i):
        # every variant zeroes H[i,i-1] only if |h| <= c*tol*max(1, |h_{i-1,i-1}| + |h_ii| (+|h|)) with c <= 3,
        # hence |h|^2 <= (8 tol)^2 (1 + 2|h_{i-1,i-1}|^2 + 2|h_ii|^2)
        return (8 * TOL) ** 2 * (1 + 2 * mod2(Tn[i - 1][i - 1]) + 2 * mod2(Tn[i][i]))
    for i in range(n):
        for j in range(n):
            if i == j + 1:
                d = [Tn[i][j][c] - S_[i][j][c] for c in range(4)]
                same = (d[0] == 0) & (d[1] == 0) & (d[2] == 0) & (d[3] == 0)
                zeroed = (Tn[i][j][0] == 0) & (Tn[i][j][1] == 0) & (Tn[i][j][2] == 0) & (Tn[i][j][3] == 0)
                small = mod2(S_[i][j]) <= bound(i)
                env.holds('T[%d,%d] = (Q^H A Q)[%d,%d], or it was deflated and was negligible' % (i, j, i, j), same | (zeroed & small))
            else:
                env.eq('T = Q^H A Q off the sub-diagonal', Tn[i][j], S_[i][j])
    if diag.get('converged') and iters == 1:
        # (for more than one iteration an entry judged negligible against the diagonal of ITS iteration need not be negligible against the
        #  diagonal after a later sweep with arbitrary stub kernels: only claimed for the iteration in which the decision was taken)
        for i in range(1, n):
            env.le('converged flag: sub-diagonal entry (%d,%d) of T is below the tolerance scale' % (i, i - 1), mod2(Tn[i][i - 1]), bound(i))


def composition(env, variant, n, kind='real'):
    """zero iterations: Q = P0^H and T = H0 (composition with the Hessenberg reduction)"""
    A = env.qarr('a', (n, n), kind)
    if not env.symbolic:
        # a full (non-Hessenberg) input, so that the accumulated Q starts from a genuine P0^H: the model input, and the model input
        # shifted by a fixed generic matrix (the solver's model of this unconstrained path is usually the zero matrix)
        G = _generic(env, n, kind)
        _conc_battery(env, variant, [('model input', A), ('model input + fixed generic matrix', A + G)], (3, 200), n)
        return
    rec = _install_stubs(env, n, kind, 'symbolic')
    try:
        Q, T, diag = _run_variant(env, variant, A, 0)
    finally:
        _restore(env, rec)
    env.holds('the Hessenberg reduction is called on the input itself', rec.get('A_in') is A)
    env.eq('no iterations: Q = P0^H', cm.as_nested(env, Q), _herm_nested(cm.as_nested(env, rec['P0'])))
    H0n = cm.as_nested(env, rec['H0'])
    Tn = cm.as_nested(env, T)
    for i in range(n):
        for j in range(n):
            if i <= j + 1:
                if i > j:
                    continue      # sub-diagonal entries may be deflated even before the first sweep
                env.eq('no iterations: T = H0 on and above the diagonal', Tn[i][j], H0n[i][j])


VARIANTS = ['pure:none', 'pure:rayleigh', 'implicit:rayleigh', 'implicit:none', 'unified:aed', 'unified:ds', 'unified:aed/noshifts', 'unified:ds/noshifts',
            'unified:none', 'unified:rayleigh', 'unified:implicit', 'experimental:aed_windowed', 'experimental:francis_ds',
            'schur:rayleigh', 'schur:wilkinson', 'schur:double']

META = {
    'explanation': 'compositional bounded symbolic execution of all Schur variants: hessenbergize, householder_matrix, ggivens, the shift estimator and '
                   'np.linalg.eigvals are replaced by fresh symbolic matrices / reals (so every shift schedule and every rotation is covered), the sweeps, '
                   'accumulation order, real-block permutation, deflation and diagnostics run as written; T = Q^H A Q is then a polynomial identity',
    'outside_claim': ['unitarity of Q (rests on the kernel contracts verified in C08 / C16)', 'convergence; n >= 4; more than 2 outer iterations',
                      'Hermitian => real diagonal T', 'rounding / loss of unitarity'],
    'assumptions': ['kernels replaced by arbitrary symbolic matrices (their contracts are C08, C09, C16); for the real-block variant the Givens kernel is an arbitrary rationally parametrised plane rotation', 'floats modelled as exact reals'],
}


def cells():
    out = []
    for v in VARIANTS:
        n3q = False
        q2 = v in ('pure:none', 'pure:rayleigh', 'implicit:rayleigh', 'unified:aed', 'unified:ds/noshifts', 'experimental:aed_windowed',
                   'experimental:francis_ds', 'schur:wilkinson')       # one per code path; the others dispatch to these (composition cells)
        for n, iters, tier in [(2, 1, 'quick' if q2 else 'thorough'), (3, 1, 'quick' if n3q else 'thorough'), (2, 2, 'thorough'), (3, 2, 'thorough')]:
            out.append(Cell('similarity[%s,n=%d,iters=%d]' % (v, n, iters), 'c10:similarity', dict(variant=v, n=n, iters=iters),
                            domain='a' if (v.startswith('schur:') or _needs_unitary(v)) else 'z', tier=tier,
                            timeout_s=1200 if tier == 'quick' else 2400, q_timeout_ms=5000, ob_timeout_ms=5000 if tier == 'quick' else 60000, max_paths=300,
                            twin=(n == 2 and iters == 1 and v in ('unified:aed',)), twin_timeout_s=300,
                            bounds='A %dx%d upper Hessenberg real-axis symbolic; kernels = arbitrary symbolic matrices; %d outer iteration(s)' % (n, n, iters)))
        out.append(Cell('composition[%s,n=3]' % v, 'c10:composition', dict(variant=v, n=3), domain='z', tier='quick', timeout_s=600, twin=False,
                        bounds='P0, H0 symbolic, zero iterations'))
    return out
