"""C09 - Hessenberg reduction is a unitary similarity to upper Hessenberg form."""
from fractions import Fraction

from symex.runner import Cell
from . import common as cm
from .c07 import cm_matmul_nested
from .c08 import _herm_nested

PROP = 'C09'


def hess(env, n, kind='full', pattern=None):
    Hs = env.R.hessenberg
    k = kind if pattern is None else (lambda idx: pattern[idx[0]][idx[1]])
    A = env.qarr('a', (n, n), k)
    P, H = Hs.hessenbergize(env.twist(A))
    env.holds('shapes', tuple(P.shape) == (n, n) and tuple(H.shape) == (n, n))
    Pn, Hn, An = cm.as_nested(env, P), cm.as_nested(env, H), cm.as_nested(env, A)
    env.eq('P^H P = I', cm_matmul_nested(_herm_nested(Pn), Pn), cm.eye_nested(n))
    PAPh = cm_matmul_nested(cm_matmul_nested(Pn, An), _herm_nested(Pn))
    for i in range(n):
        for j in range(n):
            if i > j + 1:
                # below the first sub-diagonal: exact zero after the clean-up, and what the
                # clean-up discarded is negligible (every component <= 1e-12)
                env.eq('H is upper Hessenberg (exact zeros)', Hn[i][j], [0, 0, 0, 0])
                for c in range(4):
                    env.le('entry discarded by the clean-up is negligible', PAPh[i][j][c] * PAPh[i][j][c], Fraction(1e-12) ** 2 if env.symbolic else 1e-24, abs_slack=1e-20)
            else:
                env.eq('H = P A P^H', Hn[i][j], PAPh[i][j])
    env.eq('||H||_F^2 = ||A||_F^2', [sum((x * x for r in Hn for e in r for x in e), 0)], [cm.frob2(env, A)])
    env.holds('is_hessenberg(H)', bool(Hs.is_hessenberg(H)))


def trivial(env, n):
    Hs = env.R.hessenberg
    A = env.qarr('a', (n, n))
    P, H = Hs.hessenbergize(env.twist(A))
    env.eq('n <= 2: P = I', cm.as_nested(env, P), cm.eye_nested(n))
    env.eq('n <= 2: H = A', cm.as_nested(env, H), cm.as_nested(env, A))
    env.holds('H is a copy, not the input object', H is not A)


def compositional(env, n):
    """n = 4, 5: householder_matrix replaced by arbitrary symbolic matrices W_k (its contract -
    unitary, annihilating - is verified separately in C08): H = P A P^H and P = prod embed(W_k)
    are then polynomial identities that pin the update order, the embedding offsets and the
    argument passed to the reflector generator."""
    Hs = env.R.hessenberg
    if not env.symbolic:
        A = env.qarr('a', (n, n), 'real')
        P, H = Hs.hessenbergize(A)
        Pn, Hn, An = cm.as_nested(env, P), cm.as_nested(env, H), cm.as_nested(env, A)
        PAPh = cm_matmul_nested(cm_matmul_nested(Pn, An), _herm_nested(Pn))
        env.eq('H = P A P^H', Hn, PAPh)
        return
    A = env.qarr('a', (n, n), 'real')
    calls = []
    orig = Hs.householder_matrix

    def stub(col, e1):
        k = len(calls)
        m = len(col)
        W = env.qarr('w%d' % k, (m, m), 'real')
        calls.append((col, e1, W))
        return W
    Hs.householder_matrix = stub
    try:
        P, H = Hs.hessenbergize(env.twist(A))
    finally:
        Hs.householder_matrix = orig
    env.holds('one reflector per column 0..n-3', len(calls) == n - 2)
    An = cm.as_nested(env, A)
    # replay the documented recurrence with the stub matrices
    Hc = An
    Pc = cm.eye_nested(n)
    for k, (col, e1, W) in enumerate(calls):
        m = n - (k + 1)
        env.holds('reflector %d has length n-(k+1)' % k, len(col) == m and tuple(e1.shape) == (m,))
        env.eq('reflector %d is built from H[k+1:, k]' % k, [[col[i].w, col[i].x, col[i].y, col[i].z] for i in range(m)],
               [Hc[k + 1 + i][k] for i in range(m)])
        env.eq('target vector is e1', list(e1), [1] + [0] * (m - 1))
        Wn = cm.as_nested(env, W)
        E = cm.eye_nested(n)
        for i in range(m):
            for j in range(m):
                E[k + 1 + i][k + 1 + j] = Wn[i][j]
        Hc = cm_matmul_nested(cm_matmul_nested(E, Hc), _herm_nested(E))
        Pc = cm_matmul_nested(E, Pc)
    Pn, Hn = cm.as_nested(env, P), cm.as_nested(env, H)
    env.eq('P = H_{n-3} ... H_0 (embedded reflectors, left-accumulated)', Pn, Pc)
    # check_hessenberg may zero entries whose four components are all <= 1e-12: compare up to that
    for i in range(n):
        for j in range(n):
            same = env.cond  # noqa
            d = [Hn[i][j][c] - Hc[i][j][c] for c in range(4)]
            if i > j + 1:
                for c in range(4):
                    # either untouched, or zeroed because it was tiny
                    env.holds('entry (%d,%d) untouched or zeroed only when tiny' % (i, j),
                              (d[c] == 0) | ((Hn[i][j][c] == 0) & (Hc[i][j][c] * Hc[i][j][c] <= Fraction(1e-12) ** 2)))
            else:
                env.eq('H = P A P^H on and above the sub-diagonal', Hn[i][j], Hc[i][j])


def guards(env):
    Hs = env.R.hessenberg
    A = env.qarr('a', (2, 3))
    env.raises('non-square input rejected', lambda: Hs.hessenbergize(A), (ValueError,))


META = {
    'explanation': 'bounded symbolic execution of hessenbergize, check_hessenberg, is_hessenberg, _embed_householder_submatrix and the reflector '
                   'generator: directly for n <= 3 (one reflector of length 2, all degenerate branches), compositionally for n = 4, 5 with the reflector '
                   'replaced by arbitrary symbolic matrices',
    'outside_claim': ['n >= 6', 'n = 4, 5 without the reflector stub (unitarity of P and the zero pattern then rest on the reflector contract verified in C08)', 'rounding'],
    'assumptions': ['floats modelled as exact reals', 'compositional cells: householder_matrix is an arbitrary matrix of the right size (its contract is C08)'],
}


def cells():
    out = []
    for n in (1, 2):
        out.append(Cell('trivial[n=%d]' % n, 'c09:trivial', dict(n=n), domain='z', twin=(n == 2), bounds='A symbolic'))
    Z, F, R = 'zero', 'full', 'real'
    for name, kind, pat, tier in [('full', 'full', None, 'thorough'), ('real', 'real', None, 'quick'), ('complex', 'complex', None, 'quick'),
                                  ('zero_subcol', None, [[F, F, F], [Z, F, F], [Z, F, F]], 'quick'),
                                  ('already_hessenberg', None, [[F, F, F], [F, F, F], [Z, F, F]], 'quick'),
                                  ('upper_triangular', None, [[F, F, F], [Z, F, F], [Z, Z, F]], 'quick'),
                                  ('zero_first_sub', None, [[F, F, F], [Z, F, F], [F, F, F]], 'quick')]:
        out.append(Cell('hess[n=3,%s]' % name, 'c09:hess', dict(n=3, kind=kind or 'full', pattern=pat), domain='a', tier=tier, timeout_s=1200,
                        q_timeout_ms=10000, ob_timeout_ms=60000, twin=(name == 'real'), twin_timeout_s=300, bounds='3x3, entries %s' % name))
    out.append(Cell('hess[n=4,real]', 'c09:hess', dict(n=4, kind='real'), domain='a', tier='thorough', timeout_s=2400, q_timeout_ms=10000,
                    ob_timeout_ms=60000, twin=False, bounds='4x4 real-axis entries, two reflectors'))
    for n in (3, 4, 5):
        out.append(Cell('compositional[n=%d]' % n, 'c09:compositional', dict(n=n), domain='z', tier='quick' if n < 5 else 'thorough', timeout_s=1200,
                        twin=(n == 3), twin_timeout_s=300, bounds='A real-axis symbolic, reflectors = arbitrary symbolic matrices'))
    out.append(Cell('guards', 'c09:guards', {}, domain='z', twin=False, bounds='2x3 input'))
    return out
