"""C13 - sketch-and-project, hybrid and CGNE solvers never flag a wrong inverse converged
(deterministic parts: what is reported is the truth about the returned iterate)."""
from fractions import Fraction

from symex.runner import Cell
from . import common as cm
from .c02 import phi_interleaved
from .c07 import cm_matmul_nested
from .c08 import _herm_nested
from .c03 import _sub, _f2

PROP = 'C13'


def _nz(env, A, lo='1/100'):
    f2 = cm.frob2(env, A)
    env.assume(f2 >= (Fraction(lo) if env.symbolic else float(Fraction(lo))), '||A||_F^2 >= %s' % lo)
    return f2


def cgne(env, m, n, k, kind='full'):
    Sv = env.R.solver
    A = env.qarr('a', (m, n), (lambda idx: 'real' if idx[0] == idx[1] else 'zero') if kind == 'diag' else kind)
    _nz(env, A)
    tol = Fraction(1, 10 ** 6) if env.symbolic else 1e-6
    solver = Sv.CGNEQSolver(tol=tol, max_iter=k)
    X, info = solver.compute(env.twist(A))
    env.holds('X is n x m', tuple(X.shape) == (n, m))
    An, Xn = cm.as_nested(env, A), cm.as_nested(env, X)
    res = info['residual_norms']
    env.holds('iterations = len(residual_norms) <= max_iter', info['iterations'] == len(res) <= k)
    true2 = _f2(_sub(cm.eye_nested(n), cm_matmul_nested(Xn, An)))
    if res:
        env.eq('last reported residual is the true ||I - X A||_F / sqrt(n) of the returned X', [res[-1] ** 2 * n], [true2])
        for j in range(1, len(res)):
            env.le('residuals non-increasing (step %d)' % j, res[j] ** 2, res[j - 1] ** 2, slack=1e-9)
    if info['converged']:
        env.le('converged only if ||X A - I||_F / sqrt(n) <= tol', true2, tol * tol * n, slack=1e-9)
    env.holds('converged flag = (last residual <= tol)', info['converged'] == (bool(res) and bool(res[-1] <= tol)))


def _qr_stub_thin1(env, fail_first=False):
    """contract stub for scipy.linalg.qr on the real embedding of an m x 1 quaternion column y:
    Q = [phi(y/||y||) | arbitrary], R = phi(||y|| e_1): a valid (exact) QR factorisation"""
    from symex import shim, scalar as S
    state = {'calls': 0}

    def stub(a, *args, **kw):
        state['calls'] += 1
        if fail_first and state['calls'] == 1:
            raise RuntimeError('injected LAPACK failure')
        M = a.shape[0]
        m = M // 4
        if a.shape[1] != 4:
            raise S.Unsupported('qr stub: only m x 1 quaternion columns (block size 1) are modelled')
        y = [[a[4 * i + c, 0] for c in range(4)] for i in range(m)]
        n2 = sum((v * v for r in y for v in r), 0)
        if bool(S.lift(n2) == 0):
            raise S.DivByZeroEvent('zero sketch column')
        nrm = S.sqrt(n2)
        qcol = [[[v / nrm for v in r]] for r in y]
        Q = shim.robj((M, M))
        for i in range(M):
            for j in range(M):
                Q[i, j] = S.fresh('qfill') if j >= 4 else 0
        P = phi_interleaved(env, qcol)
        for i in range(M):
            for j in range(4):
                Q[i, j] = P[i][j]
        Rm = shim.robj((M, 4), shim.K0)
        for j in range(4):
            Rm[j, j] = nrm
        return Q, Rm
    return stub, state


# the solvers divide by max(||Pi||_F, 1e-30): the exact value of that float literal, squared (never 10**-60: see DESIGN 7)
_PI_FLOOR2 = max(Fraction(1e-30), Fraction(1, 10 ** 30)) ** 2


class _ConcDraws:
    """concrete side: numpy.random.randn of the real library is wrapped for the duration of the call; the draws are RECORDED (so that the
    proxy of the returned X can be recomputed from the very sketch the solver used) and take the values of a replayed counterexample
    ('rnd<k>' names) where the model has them, the real generator's values otherwise"""
    def __init__(self, env, fixed=None, real_axis_only=False):
        self.env, self.fixed, self.real_axis_only, self.draws, self.n = env, fixed, real_axis_only, [], 0

    def __enter__(self):
        import numpy as np
        self._orig = np.random.randn
        me = self

        def randn(*shape):
            a = me._orig(*shape)
            comp = len(me.draws) % 4
            for i in range(a.size):
                if me.real_axis_only and comp != 0:
                    a.flat[i] = 0.0
                    continue
                me.n += 1
                if me.fixed is not None:
                    a.flat[i] = float(Fraction(me.fixed[(me.n * 7 + i) % len(me.fixed)]))
                elif ('rnd%d' % me.n) in me.env.vals:
                    a.flat[i] = me.env._v('rnd%d' % me.n)
            me.draws.append(a.copy())
            return a
        np.random.randn = randn
        return self

    def __exit__(self, *exc):
        import numpy as np
        np.random.randn = self._orig
        return False


def _conc_proxy_clause(env, draws, A, X, res, n, k):
    """||Pi - X A Pi||_F / ||Pi||_F recomputed from the recorded test sketch (the first four draws)"""
    Pi = [[[float(draws[c][i, j]) for c in range(4)] for j in range(k)] for i in range(n)]
    An, Xn = cm.as_nested(env, A), cm.as_nested(env, X)
    proxy2 = _f2(_sub(Pi, cm_matmul_nested(Xn, cm_matmul_nested(An, Pi))))
    pi2 = _f2(Pi)
    if pi2 > 1e-60:
        got, want = float(res[-1]), (proxy2 / pi2) ** 0.5
        env.holds('last reported proxy is the proxy of the returned X (unless the test sketch is numerically zero)',
                  abs(got - want) <= 1e-6 * max(got, want) + 1e-12)


def rsp_column(env, m, n, iters, fail_first=False, solver_kind='qr'):
    Sv = env.R.solver
    A = env.qarr('a', (m, n), 'real')
    _nz(env, A)
    tol = Fraction(1, 10 ** 6) if env.symbolic else 1e-6
    if not env.symbolic:
        import numpy as np
        np.random.seed(7)
        solver = Sv.RandomizedSketchProjectPseudoinverse(block_size=1, max_iter=iters, tol=tol, test_sketch_size=1, column_solver=solver_kind)
        with _ConcDraws(env) as cd:
            X, info = solver.compute_column_variant(A)
        env.holds('converged flag = (last residual <= tol)', info['converged'] == (bool(info['residual_norms']) and info['residual_norms'][-1] <= tol))
        env.holds('iterations = number of recorded residuals', info['iterations'] == len(info['residual_norms']) and len(info['residual_norms']) <= iters)
        if info['residual_norms'] and len(cd.draws) >= 4:
            _conc_proxy_clause(env, cd.draws, A, X, info['residual_norms'], n, 1)
        return
    draws = []
    from symex import shim, scalar as S

    def hook(shape, tag):
        import numpy as np
        a = np.empty(shape, dtype=object)
        for i in range(a.size):
            shim.NP._ndraw += 1
            a.flat[i] = S.CTX.newvar('rnd%d' % shim.NP._ndraw) if i % 4 == 0 or True else S.K(Fraction(0))
        draws.append(a.view(shim.RArr))
        return draws[-1]
    shim.NP._draw_hook = hook
    stub, state = _qr_stub_thin1(env, fail_first)
    env.stub_scipy_linalg('qr', stub)
    try:
        solver = Sv.RandomizedSketchProjectPseudoinverse(block_size=1, max_iter=iters, tol=tol, test_sketch_size=1, column_solver=solver_kind)
        X, info = solver.compute_column_variant(env.twist(A))
    finally:
        shim.NP._draw_hook = None
    res = info['residual_norms']
    ok_iters = iters - (1 if fail_first else 0)
    env.holds('one residual per successful iteration (a failed update is skipped, not recorded)', len(res) <= ok_iters and info['iterations'] == len(res))
    # the first 4 draws are the components of the test sketch Pi (n x 1)
    Pi = [[[draws[c][i, 0] for c in range(4)]] for i in range(n)]
    An, Xn = cm.as_nested(env, A), cm.as_nested(env, X)
    if res:
        proxy2 = _f2(_sub(Pi, cm_matmul_nested(Xn, cm_matmul_nested(An, Pi))))
        pi2 = _f2(Pi)
        env.holds('last reported proxy is the proxy of the returned X (unless the test sketch is numerically zero)',
                  (pi2 <= _PI_FLOOR2) | (res[-1] ** 2 * pi2 == proxy2))
    env.holds('converged flag = (last proxy <= tol)', bool(info['converged']) == (bool(res) and bool(res[-1] <= tol)))
    if iters == 1 and not fail_first and res:
        # sketched constraint after one step: X+ A Omega = Omega up to the 1e-30 regulariser of the triangular solve
        Om = [[[draws[4 + c][i, 0] for c in range(4)]] for i in range(n)]
        Y = cm_matmul_nested(An, Om)
        y2 = _f2(Y)
        f2 = cm.frob2(env, A)
        X0 = [[[v / f2 for v in e] for e in r] for r in _herm_nested(An)]
        lhs = _sub(cm_matmul_nested(Xn, Y), Om)
        rhs = _sub(Om, cm_matmul_nested(X0, Y))
        reg = Fraction(1e-30)
        env.eq('sketch-and-project step: X+ A Omega = Omega (exact up to the documented 1e-30 regulariser)',
               [[[v * (y2 + reg) for v in e] for e in r] for r in lhs], [[[-reg * v for v in e] for e in r] for r in rhs])


_FIXED = ['3/2', '-1/2', '2', '1/3', '-5/4', '1', '-2/3', '7/5', '1/2', '-3', '4/3']


def hybrid(env, m, n, p, cycles=1, diag=False, conc_draws=False):
    """HybridRSPNewtonSchulz.compute: the last reported proxy is the proxy of the returned X and the converged flag is computed from it"""
    Sv = env.R.solver
    A = env.qarr('a', (m, n), (lambda idx: 'real' if idx[0] == idx[1] else 'zero') if diag else 'real')
    _nz(env, A)
    tol = Fraction(1, 10 ** 6) if env.symbolic else 1e-6
    if not env.symbolic:
        import numpy as np
        np.random.seed(3)
        with _ConcDraws(env, fixed=_FIXED if conc_draws else None, real_axis_only=diag) as cd:
            X, info = Sv.HybridRSPNewtonSchulz(r=1, p=p, T=1, tol=tol, max_iter=cycles).compute(A)
        res = info['residual_norms']
        if res and len(cd.draws) >= 4:
            _conc_proxy_clause(env, cd.draws, A, X, res, n, min(6, n))
        env.holds('converged flag = (last proxy <= tol)', info['converged'] == (bool(res) and res[-1] <= tol))
        An, Xn = cm.as_nested(env, A), cm.as_nested(env, X)
        true2 = _f2(_sub(cm.eye_nested(n), cm_matmul_nested(Xn, An)))
        if info['converged'] and not conc_draws and not any(str(k).startswith('rnd') for k in env.vals):
            # only for sketches drawn by the real generator: for a sketch chosen by the solver (a replayed model) a small proxy
            # says nothing about the true residual (probabilistic statement, outside the claim)
            env.le('converged only if ||X A - I||_F / sqrt(n) <= 10 tol', true2, (10 * tol) ** 2 * n, slack=1e-9)
        return
    draws = []
    from symex import shim, scalar as S

    def hook(shape, tag):
        import numpy as np
        a = np.empty(shape, dtype=object)
        comp = len(draws) % 4          # the solver draws the four components of a sketch one after the other
        for i in range(a.size):
            if diag and comp != 0:
                a.flat[i] = S.K(Fraction(0))     # stated bound of the diagonal cell: real-axis sketches
            elif conc_draws:
                # stated bound of the 'fixed sketches' cell: the draws are fixed non-trivial rationals, A stays symbolic
                shim.NP._ndraw += 1
                a.flat[i] = S.K(Fraction(_FIXED[(shim.NP._ndraw * 7 + i) % len(_FIXED)]))
            else:
                shim.NP._ndraw += 1
                a.flat[i] = S.CTX.newvar('rnd%d' % shim.NP._ndraw)
        draws.append(a.view(shim.RArr))
        return draws[-1]
    shim.NP._draw_hook = hook
    stub, state = _qr_stub_thin1(env)
    env.stub_scipy_linalg('qr', stub)
    try:
        X, info = Sv.HybridRSPNewtonSchulz(r=1, p=p, T=1, tol=tol, max_iter=cycles).compute(env.twist(A))
    finally:
        shim.NP._draw_hook = None
    res = info['residual_norms']
    env.holds('one proxy per cycle', len(res) >= 1)
    k = min(6, n)
    Pi = [[[draws[c][i, j] for c in range(4)] for j in range(k)] for i in range(n)]
    An, Xn = cm.as_nested(env, A), cm.as_nested(env, X)
    proxy2 = _f2(_sub(Pi, cm_matmul_nested(Xn, cm_matmul_nested(An, Pi))))
    pi2 = _f2(Pi)
    env.holds('last reported proxy is the proxy of the returned X (unless the test sketch is numerically zero)',
              (pi2 <= _PI_FLOOR2) | (res[-1] ** 2 * pi2 == proxy2))
    env.holds('converged flag = (last proxy <= tol)', bool(info['converged']) == bool(res[-1] <= tol))
    env.holds('info echoes the configuration', info['r'] == 1 and info['p'] == p and info['T'] == 1)


def hyperpower(env, m, n, p):
    Sv = env.R.solver
    A = env.qarr('a', (m, n), 'real' if p > 2 else 'full')
    X = env.qarr('x', (n, m), 'real' if p > 2 else 'full')
    h = Sv.HybridRSPNewtonSchulz(p=p)
    Xp = h._ns_hyperpower_right(env.twist(A), X)
    An, Xn = cm.as_nested(env, A), cm.as_nested(env, X)
    F = _sub(cm.eye_nested(n), cm_matmul_nested(Xn, An))
    S_ = cm.eye_nested(n)
    Fp = cm.eye_nested(n)
    for _ in range(1, p):
        Fp = cm_matmul_nested(Fp, F)
        S_ = [[[a + b for a, b in zip(e1, e2)] for e1, e2 in zip(r1, r2)] for r1, r2 in zip(S_, Fp)]
    env.eq('hyperpower step = (sum_{i<p} F^i) X with F = I - X A', cm.as_nested(env, Xp), cm_matmul_nested(S_, Xn))
    # residual contraction: I - X+ A = F^p
    Fpow = cm.eye_nested(n)
    for _ in range(p):
        Fpow = cm_matmul_nested(Fpow, F)
    env.eq('I - X+ A = (I - X A)^p', _sub(cm.eye_nested(n), cm_matmul_nested(cm.as_nested(env, Xp), An)), Fpow)


META = {
    'explanation': 'bounded symbolic execution of CGNEQSolver.compute (no preconditioner), RandomizedSketchProjectPseudoinverse.compute_column_variant '
                   '(block size 1, QR micro-solver with an exact contract stub, RNG draws symbolic, incl. an injected micro-solver failure) and '
                   'HybridRSPNewtonSchulz._ns_hyperpower_right: the reported residual / proxy is the one of the returned iterate, the converged flag is computed '
                   'from it, failed updates do not desynchronise history and iterate, the projection step satisfies its sketched constraint',
    'outside_claim': ['that a small PROXY (a random test sketch) implies a small true residual: a probabilistic statement about the Gaussian sketch; an adversarial '
                      'draw found by the solver is not a seed', 'convergence within a budget, cond(A)-scaled accuracy', 'the SPD / CG micro-solver and the row '
                      'variant beyond the flag/history clauses', 'block sizes > 1, shapes > 2x2', 'rounding'],
    'assumptions': ['floats modelled as exact reals', 'scipy.linalg.qr of an m x 1 column = exact QR (stub)', 'RNG draws are arbitrary reals'],
}


def cells():
    out = []
    big = dict(domain='a', timeout_s=1800, q_timeout_ms=10000, ob_timeout_ms=60000, max_paths=400, events='outside')
    for (m, n), kind, k, tier in [((1, 1), 'full', 1, 'quick'), ((1, 1), 'full', 2, 'quick'), ((2, 1), 'full', 1, 'quick'), ((2, 1), 'real', 2, 'quick'),
                                  ((2, 2), 'diag', 1, 'quick'), ((2, 2), 'diag', 2, 'quick'), ((3, 2), 'diag', 1, 'quick'), ((2, 2), 'real', 1, 'thorough'), ((2, 2), 'real', 2, 'thorough'), ((2, 1), 'full', 2, 'thorough'), ((3, 2), 'real', 1, 'thorough')]:
        out.append(Cell('cgne[%dx%d,%s,k=%d]' % (m, n, kind, k), 'c13:cgne', dict(m=m, n=n, k=k, kind=kind), tier=tier, twin=((m, n, k) == (2, 1, 1)),
                        twin_timeout_s=600, bounds='A %dx%d (%s) symbolic, %d CG step(s)' % (m, n, kind, k), **big))
    for (m, n), iters, fail, tier in [((1, 1), 1, False, 'quick'), ((2, 1), 1, False, 'quick'), ((1, 1), 2, False, 'quick'), ((1, 1), 2, True, 'quick'),
                                      ((2, 2), 1, False, 'thorough'), ((2, 2), 2, True, 'thorough'), ((2, 1), 2, True, 'thorough'), ((2, 1), 2, False, 'thorough')]:
        out.append(Cell('rsp_column[%dx%d,iters=%d%s]' % (m, n, iters, ',micro-solver failure injected' if fail else ''), 'c13:rsp_column',
                        dict(m=m, n=n, iters=iters, fail_first=fail), tier=tier, twin=False,
                        bounds='A %dx%d real-axis symbolic, block size 1, all sketch draws symbolic' % (m, n), **big))
    out.append(Cell('hybrid[2x2 diagonal,p=2]', 'c13:hybrid', dict(m=2, n=2, p=2, diag=True), tier='thorough', twin=False,
                    bounds='A = diag(a, d) real symbolic, r = 1, T = 1, one cycle, sketch draws symbolic on the real axis', **big))
    for (m, n), p, dg, tier in [((2, 2), 2, True, 'quick'), ((2, 2), 3, True, 'thorough'), ((2, 2), 2, False, 'quick'), ((3, 2), 2, True, 'thorough')]:
        out.append(Cell('hybrid[%dx%d %s,p=%d,fixed sketches]' % (m, n, 'diagonal' if dg else 'real-axis', p), 'c13:hybrid', dict(m=m, n=n, p=p, diag=dg, conc_draws=True),
                        tier=tier, twin=False, bounds='A %dx%d %s symbolic, r = 1, T = 1, one cycle, the sketch draws FIXED to non-trivial rationals '
                        '(so that the sketch step leaves I - X A != 0 before the hyperpower step)' % (m, n, 'diagonal' if dg else 'real-axis'), **big))
    for (m, n), p, tier in [((2, 1), 2, 'quick'), ((2, 2), 2, 'thorough'), ((3, 2), 3, 'thorough')]:
        out.append(Cell('hybrid[%dx%d,p=%d]' % (m, n, p), 'c13:hybrid', dict(m=m, n=n, p=p), tier=tier, twin=False,
                        bounds='A %dx%d real-axis symbolic, r = 1, T = 1, one cycle, all draws symbolic' % (m, n), **big))
    for (m, n), p, tier in [((1, 1), 2, 'quick'), ((2, 1), 2, 'quick'), ((2, 2), 2, 'thorough'), ((2, 1), 3, 'quick'), ((2, 1), 4, 'thorough')]:
        out.append(Cell('hyperpower[%dx%d,p=%d]' % (m, n, p), 'c13:hyperpower', dict(m=m, n=n, p=p), domain='z', tier=tier, timeout_s=900,
                        twin=((m, n, p) == (2, 1, 2)), bounds='A and X symbolic'))
    return out
