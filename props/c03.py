"""C03 - Newton-Schulz solvers follow the documented recurrence, monotonically."""
from fractions import Fraction

from symex.runner import Cell
from . import common as cm
from .c07 import cm_matmul_nested
from .c08 import _herm_nested

PROP = 'C03'


def _sub(X, Y):
    return [[[a - b for a, b in zip(e1, e2)] for e1, e2 in zip(r1, r2)] for r1, r2 in zip(X, Y)]


def _add(X, Y):
    return [[[a + b for a, b in zip(e1, e2)] for e1, e2 in zip(r1, r2)] for r1, r2 in zip(X, Y)]


def _scale(c, X):
    return [[[c * a for a in e] for e in r] for r in X]


def _f2(X):
    return sum((a * a for r in X for e in r for a in e), 0)


def _penrose(An, Xn):
    AX = cm_matmul_nested(An, Xn)
    XA = cm_matmul_nested(Xn, An)
    return {
        'AXA-A': _f2(_sub(cm_matmul_nested(AX, An), An)),
        'XAX-X': _f2(_sub(cm_matmul_nested(XA, Xn), Xn)),
        'AX-herm': _f2(_sub(AX, _herm_nested(AX))),
        'XA-herm': _f2(_sub(XA, _herm_nested(XA))),
    }


def _step(An, Xn, m, n, gamma, which):
    if which == 'third':
        AT = cm_matmul_nested(An, Xn)
        TAT = cm_matmul_nested(cm_matmul_nested(Xn, An), Xn)
        return _add(_sub(_scale(3, Xn), _scale(3, TAT)), cm_matmul_nested(Xn, cm_matmul_nested(AT, AT)))
    if m >= n:
        E = _sub(cm_matmul_nested(Xn, An), cm.eye_nested(n))
        return _sub(Xn, _scale(gamma, cm_matmul_nested(E, Xn)))
    E = _sub(cm_matmul_nested(An, Xn), cm.eye_nested(m))
    return _sub(Xn, _scale(gamma, cm_matmul_nested(Xn, E)))


def _make_A(env, m, n, kind, diag):
    if diag:
        s = env.rarr('s', (min(m, n),))
        for i in range(min(m, n)):
            env.assume(s[i] > 0, 's_i > 0')
            env.assume(s[i] <= 100, 's_i <= 100')
        rows = [[[s[i] if (i == j and i < diag) else 0, 0, 0, 0] for j in range(n)] for i in range(m)]
        return cm.qmat_from_nested(env, rows), s
    return env.qarr('a', (m, n), kind), None


def recurrence(env, m, n, k, which='damped', kind='full', sparse=False, track=True, diag=0):
    """X_k equals the documented recurrence from X0 = A^H/||A||_F^2; the residual and covariance
    lists are the true values of the iterates they are reported for"""
    Sv = env.R.solver
    A, s = _make_A(env, m, n, kind, diag)
    An = cm.as_nested(env, A)
    g = env.real('gamma')
    env.assume(g > 0, 'gamma > 0')
    env.assume(g <= 1, 'gamma <= 1')
    f2 = _f2(An)
    if which == 'damped':
        solver = Sv.NewtonSchulzPseudoinverse(gamma=g, max_iter=k, tol=0.0, compute_residuals=track)
    else:
        solver = Sv.HigherOrderNewtonSchulzPseudoinverse(max_iter=k, tol=0.0)
    Ain = env.sparse(A) if sparse else A
    X, res, cov = solver.compute(env.twist(Ain) if not sparse else Ain)
    env.holds('X has shape n x m', tuple(X.shape) == (n, m))
    Xn = cm.as_nested(env, X)
    reg = 0 if which == 'damped' else (Fraction(1e-30) if env.symbolic else 1e-30)
    if which == 'damped' and k > 0 and len(cov) == 0:
        # the solver declined to iterate: allowed only for the zero matrix, whose pseudoinverse is 0
        env.holds('no iteration only for A = 0', f2 == 0)
        env.eq('A = 0 gives X = 0', Xn, [[[0, 0, 0, 0] for _ in range(m)] for _ in range(n)])
        return
    if not env.symbolic and float(f2) == 0.0:
        return
    X0 = _scale(1 / (f2 + reg), _herm_nested(An))
    iters = [X0]
    for _ in range(k):
        iters.append(_step(An, iters[-1], m, n, g, which))
    env.eq('X_k follows the documented recurrence from X0 = A^H/||A||_F^2', Xn, iters[k])
    if which == 'damped':
        env.holds('one covariance entry per iteration', len(cov) == k)
        for j in range(k):
            I = cm.eye_nested(n if m >= n else m)
            prod = cm_matmul_nested(iters[j], An) if m >= n else cm_matmul_nested(An, iters[j])
            env.eq('covariances[%d]^2 = ||X_j A - I||_F^2 (iterate before update %d)' % (j, j + 1), [cov[j] ** 2], [_f2(_sub(prod, I))])
    if which == 'third' or track:
        for key in ('AXA-A', 'XAX-X', 'AX-herm', 'XA-herm'):
            env.holds('one %s residual per iteration' % key, len(res[key]) == k)
        for j in range(k):
            pr = _penrose(An, iters[j + 1])
            for key in pr:
                env.eq('residuals[%s][%d]^2 is the Penrose residual of the iterate after update %d' % (key, j, j + 1), [res[key][j] ** 2], [pr[key]])
    else:
        env.holds('no residuals recorded when tracking is off', all(len(res[key]) == 0 for key in res))
    if diag:
        # spectral model: X_k = diag(t_i^(k) / s_i) with t <- t(1 + gamma(1-t))  resp. 1-(1-t)^3
        tot = sum((s[i] * s[i] for i in range(diag)), 0) + reg
        t = [s[i] * s[i] / tot for i in range(diag)]
        hist = [list(t)]
        for _ in range(k):
            t = [ti * (1 + g * (1 - ti)) if which == 'damped' else 1 - (1 - ti) ** 3 for ti in t]
            hist.append(list(t))
        for i in range(n):
            for j in range(m):
                want = t[i] / s[i] if (i == j and i < diag) else 0
                env.eq('spectral model: X_k[%d,%d]' % (i, j), Xn[i][j], [want, 0, 0, 0])
        if which == 'third' or track:
            seq = [_f2(_sub(cm_matmul_nested(cm_matmul_nested(An, iters[j]), An), An)) for j in range(k + 1)]
            for j in range(1, k + 1):
                env.le('||A X A - A||_F does not increase at update %d' % j, seq[j], seq[j - 1], slack=1e-9)


def stop_rule(env, r, which='damped'):
    """a run that leaves the loop on its tolerance returns an X whose last reported residuals are
    below tol (damped: max over the four; third-order: E1), for the diagonal family"""
    Sv = env.R.solver
    A, s = _make_A(env, r, r, 'real', r)
    tol = env.real('tol')
    env.assume(tol > 0, 'tol > 0')
    env.assume(tol <= 1, 'tol <= 1')
    K = 2
    if which == 'damped':
        solver = Sv.NewtonSchulzPseudoinverse(gamma=1.0 if not env.symbolic else 1, max_iter=K, tol=tol)
    else:
        solver = Sv.HigherOrderNewtonSchulzPseudoinverse(max_iter=K, tol=tol)
    X, res, cov = solver.compute(A)
    done = len(res['AXA-A'])
    env.holds('at least one and at most max_iter iterations', 1 <= done <= K)
    An, Xn = cm.as_nested(env, A), cm.as_nested(env, X)
    pr = _penrose(An, Xn)
    for key in pr:
        env.eq('last %s entry belongs to the returned X' % key, [res[key][-1] ** 2], [pr[key]])
    if done < K:
        if which == 'damped':
            for key in pr:
                env.le('early stop only when %s < tol' % key, pr[key], tol * tol, slack=1e-9)
        else:
            env.le('early stop only when E1 < tol', pr['AXA-A'], tol * tol, slack=1e-9)
        # error bound ||X - A^+||_F <= tol / s_min^2 for the diagonal family
        err = sum(((Xn[i][i][0] - 1 / s[i]) ** 2 for i in range(r)), 0)
        for i in range(r):
            env.le('||X - A^+||_F^2 <= tol^2 / s_%d^4 when s_%d is the smallest singular value' % (i, i), err, tol * tol / s[i] ** 4, slack=1e-9) \
                if all(env.cond(s[i] <= s[j]) for j in range(r)) else None


def zero_input(env, which, m, n):
    Sv = env.R.solver
    A = env.qzeros((m, n))
    solver = Sv.NewtonSchulzPseudoinverse(max_iter=2) if which == 'damped' else Sv.HigherOrderNewtonSchulzPseudoinverse(max_iter=2)
    X, res, cov = solver.compute(A)
    Xf = cm.comps(env, X)
    if env.symbolic:
        env.eq('zero matrix: X = 0 = A^+', list(Xf.reshape(-1)), [0] * (4 * m * n))
    else:
        import numpy as np
        env.holds('zero matrix: X = 0 = A^+ (finite zeros, no NaN)', bool(np.all(Xf == 0)) and tuple(X.shape) == (n, m))


META = {
    'explanation': 'bounded symbolic execution of NewtonSchulzPseudoinverse.compute (dense and sparse input, with and without residual tracking) and '
                   'HigherOrderNewtonSchulzPseudoinverse.compute with symbolic A and gamma: the returned iterate, the residual dict and the covariance list '
                   'are compared with the documented recurrence as rational-function identities; the spectral model is checked on the diagonal family',
    'outside_claim': ['iteration counts k beyond the bounds listed per cell; convergence in the limit', 'the unitary reduction from a general A to its '
                      'singular-value diagonal (the spectral clauses are decided on A = diag(s) padded, any s > 0)', 'rounding'],
    'assumptions': ['floats modelled as exact reals'],
}


def cells():
    out = []
    big = dict(domain='a', timeout_s=1800, q_timeout_ms=10000, ob_timeout_ms=60000)
    for (m, n), kind, k, tier in [((1, 1), 'full', 1, 'quick'), ((1, 2), 'full', 1, 'quick'), ((2, 1), 'full', 1, 'quick'), ((2, 2), 'real', 1, 'quick'),
                                  ((1, 1), 'full', 2, 'quick'), ((2, 2), 'complex', 1, 'thorough'), ((2, 2), 'full', 1, 'thorough'), ((1, 2), 'full', 2, 'thorough'),
                                  ((2, 1), 'full', 2, 'thorough'), ((2, 2), 'real', 2, 'thorough'), ((3, 2), 'real', 1, 'thorough'), ((2, 3), 'real', 1, 'thorough')]:
        for which in ('damped', 'third'):
            out.append(Cell('recurrence[%s,%dx%d,%s,k=%d]' % (which, m, n, kind, k), 'c03:recurrence', dict(m=m, n=n, k=k, which=which, kind=kind),
                            tier=tier, twin=((m, n) == (1, 2) and k == 1), twin_timeout_s=600,
                            bounds='A %dx%d (%s) and gamma in (0,1] symbolic; %d iteration(s)' % (m, n, kind, k), **big))
    out.append(Cell('recurrence[damped,2x1,sparse,k=1]', 'c03:recurrence', dict(m=2, n=1, k=1, which='damped', kind='full', sparse=True),
                    twin=False, bounds='sparse input', **big))
    out.append(Cell('recurrence[damped,1x2,notrack,k=2]', 'c03:recurrence', dict(m=1, n=2, k=2, which='damped', kind='real', track=False),
                    twin=False, bounds='residual tracking off', **big))
    for (m, n), r, k, tier in [((1, 1), 1, 3, 'quick'), ((2, 2), 2, 2, 'quick'), ((3, 2), 2, 2, 'quick'), ((2, 3), 1, 3, 'quick'), ((2, 3), 2, 1, 'quick'), ((2, 3), 2, 2, 'thorough'), ((3, 3), 3, 2, 'thorough'),
                               ((2, 2), 2, 3, 'thorough'), ((2, 2), 1, 3, 'quick')]:
        for which in ('damped', 'third'):
            out.append(Cell('spectral[%s,%dx%d,rank=%d,k=%d]' % (which, m, n, r, k), 'c03:recurrence',
                            dict(m=m, n=n, k=k, which=which, kind='real', diag=r), tier=('thorough' if (which == 'damped' and r >= 2) else tier), twin=(which == 'damped' and r == 1 and k == 3 and (m, n) == (1, 1)), twin_timeout_s=300,
                            bounds='A = diag(s_1..s_%d) padded to %dx%d, s_i in (0,100], gamma in (0,1]; %d iterations' % (r, m, n, k), **big))
    out.append(Cell('spectral[damped,2x2,rank=2,k=1]', 'c03:recurrence', dict(m=2, n=2, k=1, which='damped', kind='real', diag=2), tier='quick', twin=False,
                    bounds='A = diag(s_1, s_2), one damped iteration', **big))
    for which in ('damped', 'third'):
        for r in (1, 2):
            out.append(Cell('stop_rule[%s,r=%d]' % (which, r), 'c03:stop_rule', dict(r=r, which=which), tier='quick' if r == 1 else 'thorough',
                            twin=False, bounds='diagonal A (r=%d), tol symbolic in (0,1], budget 2' % r, **big))
        for (m, n) in [(1, 1), (2, 1), (1, 2)]:
            out.append(Cell('zero_input[%s,%dx%d]' % (which, m, n), 'c03:zero_input', dict(which=which, m=m, n=n), domain='a', timeout_s=300, twin=False,
                            events='violation', bounds='A = 0'))
    return out
