"""C01 - the quaternion matrix product is the Hamilton product in every storage
format; conjugate transpose reverses products; Frobenius norm identities."""
from symex.runner import Cell
from . import common as cm

PROP = 'C01'


def _operands(env, m, k, n, kindA='full', kindB='full'):
    A = env.qarr('a', (m, k), kindA)
    B = env.qarr('b', (k, n), kindB)
    return A, B


def product(env, m, k, n, path):
    """one storage path of the product against the table-driven oracle"""
    U = env.R.utils
    A, B = _operands(env, m, k, n)
    O = cm.matmul_oracle(env, A, B)
    Ai = env.twist(A)
    if path == 'dense':
        C = U.quat_matmat(Ai, B)
        got = cm.as_nested(env, C)
    elif path == 'sparse_dense':
        C = U.quat_matmat(env.sparse(Ai), B)
        got = cm.as_nested(env, C)
    elif path == 'dense_sparse':
        C = U.quat_matmat(Ai, env.sparse(B))
        got = cm.sparse_to_nested(env, C)
        env.holds('dense@sparse result shape', tuple(C.shape) == (m, n))
    elif path == 'sparse_sparse':
        C = U.quat_matmat(env.sparse(Ai), env.sparse(B))
        got = cm.sparse_to_nested(env, C)
        env.holds('sparse@sparse result shape', tuple(C.shape) == (m, n))
    elif path == 'operator':           # SparseQuaternionMatrix.__matmul__ directly
        C = env.sparse(Ai) @ B
        got = cm.as_nested(env, C)
    elif path == 'component':          # split four-component kernel used by Q-GMRES
        Af, Bf = cm.comps(env, Ai), cm.comps(env, B)
        C0, C1, C2, C3 = U.timesQsparse(Af[..., 0], Af[..., 1], Af[..., 2], Af[..., 3],
                                        Bf[..., 0], Bf[..., 1], Bf[..., 2], Bf[..., 3])
        got = [[[C0[i, j], C1[i, j], C2[i, j], C3[i, j]] for j in range(n)] for i in range(m)]
    elif path == 'component_sparse':   # same kernel fed with sparse component matrices
        Af, Bf = cm.comps(env, Ai), cm.comps(env, B)
        C0, C1, C2, C3 = U.timesQsparse(env.csr(Af[..., 0]), env.csr(Af[..., 1]), env.csr(Af[..., 2]), env.csr(Af[..., 3]),
                                        Bf[..., 0], Bf[..., 1], Bf[..., 2], Bf[..., 3])
        got = [[[C0[i, j], C1[i, j], C2[i, j], C3[i, j]] for j in range(n)] for i in range(m)]
    else:
        raise ValueError(path)
    env.eq('C = sum_k A_ik*B_kj (Hamilton) via %s' % path, got, O)


def scalar_component(env, n, side):
    """timesQsparse with a scalar quaternion operand (the safe_multiply branches
    that Q-GMRES uses for  V*h  and  d^-1 * b)"""
    U = env.R.utils
    q = env.quat('q')
    V = env.qarr('v', (n, 1))
    Vf = cm.comps(env, V)
    qi = env.twist(q)
    qc = [qi.w, qi.x, qi.y, qi.z]
    if side == 'right':          # V * q
        r = U.timesQsparse(Vf[..., 0], Vf[..., 1], Vf[..., 2], Vf[..., 3], qc[0], qc[1], qc[2], qc[3])
        want = [[cm.qmul_c([Vf[i, 0, c] for c in range(4)], [q.w, q.x, q.y, q.z])] for i in range(n)]
    else:                        # q * V
        r = U.timesQsparse(qc[0], qc[1], qc[2], qc[3], Vf[..., 0], Vf[..., 1], Vf[..., 2], Vf[..., 3])
        want = [[cm.qmul_c([q.w, q.x, q.y, q.z], [Vf[i, 0, c] for c in range(4)])] for i in range(n)]
    got = [[[r[0][i, 0], r[1][i, 0], r[2][i, 0], r[3][i, 0]]] for i in range(n)]
    env.eq('scalar %s product in component form' % side, got, want)


def hermitian(env, m, k, n, storage):
    U = env.R.utils
    A, B = _operands(env, m, k, n)
    if storage == 'dense':
        AH = U.quat_hermitian(env.twist(A))
        env.eq('A^H from definition', cm.as_nested(env, AH), cm.herm_oracle(env, A))
        env.eq('(A^H)^H = A', cm.as_nested(env, U.quat_hermitian(AH)), cm.as_nested(env, A))
        L = U.quat_hermitian(U.quat_matmat(A, B))
        Rr = U.quat_matmat(U.quat_hermitian(B), U.quat_hermitian(A))
        env.eq('(AB)^H = B^H A^H', cm.as_nested(env, L), cm.as_nested(env, Rr))
        env.eq('(AB)^H vs oracle', cm.as_nested(env, L), cm.herm_oracle(env, cm.qmat_from_nested(env, cm.matmul_oracle(env, A, B))))
    else:
        As, Bs = env.sparse(env.twist(A)), env.sparse(B)
        AH = U.quat_hermitian(As)
        env.holds('sparse A^H shape', tuple(AH.shape) == (k, m))
        env.eq('sparse A^H from definition', cm.sparse_to_nested(env, AH), cm.herm_oracle(env, A))
        env.eq('sparse (A^H)^H = A', cm.sparse_to_nested(env, U.quat_hermitian(AH)), cm.as_nested(env, A))
        L = U.quat_hermitian(U.quat_matmat(env.sparse(A), Bs))
        Rr = U.quat_matmat(U.quat_hermitian(Bs), U.quat_hermitian(env.sparse(A)))
        env.eq('sparse (AB)^H = B^H A^H', cm.sparse_to_nested(env, L), cm.sparse_to_nested(env, Rr))
        # scalar multiple of a sparse matrix (used by the solvers as alpha * A)
        S2 = env.sparse(A) * 2.0
        env.eq('sparse * scalar', cm.sparse_to_nested(env, S2), [[[2 * x for x in e] for e in row] for row in cm.as_nested(env, A)])
        S3 = 0.5 * env.sparse(A)
        env.eq('scalar * sparse', cm.sparse_to_nested(env, S3), [[[x / 2 for x in e] for e in row] for row in cm.as_nested(env, A)])


def frobenius(env, m, n):
    U = env.R.utils
    A = env.qarr('a', (m, n))
    Ai = env.twist(A)
    d = U.quat_frobenius_norm(Ai)
    s = U.quat_frobenius_norm(env.sparse(A))
    Af = cm.comps(env, A)
    c = U.normQsparse(Af[..., 0], Af[..., 1], Af[..., 2], Af[..., 3])
    want = cm.frob2(env, A)
    env.eq('||A||_F^2 dense = sum |a_ij|^2', d ** 2, want)
    env.eq('||A||_F^2 sparse = sum |a_ij|^2', s ** 2, want)
    env.eq('||A||_F^2 component form = sum |a_ij|^2', c ** 2, want)
    env.le('||A||_F >= 0', 0, d)
    h = U.quat_frobenius_norm(U.quat_hermitian(A))
    env.eq('||A^H||_F = ||A||_F', h ** 2, want)
    hs = U.quat_frobenius_norm(U.quat_hermitian(env.sparse(A)))
    env.eq('||A^H||_F = ||A||_F (sparse)', hs ** 2, want)


def unitary_invariance(env, m, n, kind):
    """||UA||_F = ||A||_F = ||AV||_F for parametrised unitary U, V"""
    U = env.R.utils
    A = env.qarr('a', (m, n))
    want = cm.frob2(env, A)

    def unit(name):
        q = env.quat(name)
        nq2 = q.w * q.w + q.x * q.x + q.y * q.y + q.z * q.z
        env.assume(nq2 >= 0.01, '|%s|^2 >= 0.01' % name)
        nq = env.sqrt(nq2)
        return env.q(q.w / nq, q.x / nq, q.y / nq, q.z / nq)

    def diag_unit(name, k):
        D = env.qzeros((k, k))
        for i in range(k):
            D[i, i] = unit('%s%d' % (name, i))
        return D

    def reflector(name, k):
        v = env.qarr(name, (k, 1))
        vv = cm.frob2(env, v)
        env.assume(vv >= 0.01, '|v|^2 >= 0.01')
        vvh = U.quat_matmat(v, U.quat_hermitian(v))
        H = env.qzeros((k, k))
        for i in range(k):
            for j in range(k):
                e = vvh[i, j]
                H[i, j] = env.q((1 if i == j else 0) - 2 * e.w / vv, -2 * e.x / vv, -2 * e.y / vv, -2 * e.z / vv)
        return H

    if kind == 'diag':
        UL, UR = diag_unit('p', m), diag_unit('r', n)
    else:
        UL, UR = reflector('p', m), reflector('r', n)
    left = U.quat_frobenius_norm(U.quat_matmat(UL, env.twist(A)))
    right = U.quat_frobenius_norm(U.quat_matmat(A, UR))
    env.eq('||UA||_F = ||A||_F', left ** 2, want)
    env.eq('||AU||_F = ||A||_F', right ** 2, want)


def submult(env, m, k, n):
    U = env.R.utils
    A, B = _operands(env, m, k, n)
    ab = U.quat_frobenius_norm(U.quat_matmat(env.twist(A), B))
    a = U.quat_frobenius_norm(A)
    b = U.quat_frobenius_norm(B)
    env.le('||AB||_F^2 <= ||A||_F^2 ||B||_F^2', ab ** 2, (a ** 2) * (b ** 2))


META = {
    'explanation': 'bounded symbolic execution of quat_matmat, SparseQuaternionMatrix, timesQsparse, quat_hermitian, '
                   'quat_frobenius_norm, normQsparse on fully symbolic quaternion entries; every clause is an SMT query '
                   '(polynomial identities over the reals, decided by z3) per shape',
    'outside_claim': [
        'shapes with a dimension > 3 (the code has no shape-dependent branch, but that is an argument, not a solver result)',
        'floating-point rounding, overflow/underflow (huge/tiny magnitudes), NaN propagation: floats are modelled as reals',
        "SciPy's CSR kernels (replaced by a dense stand-in with the same algebraic API)",
        'sub-multiplicativity beyond the shapes listed in bounds',
    ],
    'assumptions': ['floats modelled as exact reals', 'scipy.sparse CSR algebra = dense matrix algebra (trusted)'],
}


def cells():
    out = []
    shapes_q = [(1, 1, 1), (2, 2, 2), (1, 2, 3), (3, 2, 1), (2, 3, 2), (3, 1, 2), (2, 1, 1), (1, 3, 1)]
    shapes_all = [(m, k, n) for m in (1, 2, 3) for k in (1, 2, 3) for n in (1, 2, 3)]
    paths = ['dense', 'sparse_dense', 'dense_sparse', 'sparse_sparse', 'operator', 'component', 'component_sparse']
    for sh in shapes_all:
        tier = 'quick' if sh in shapes_q else 'thorough'
        for p in paths:
            out.append(Cell('product[%s,%dx%dx%d]' % ((p,) + sh), 'c01:product', dict(m=sh[0], k=sh[1], n=sh[2], path=p),
                            domain='z', tier=tier, timeout_s=120, twin=(sh in [(2, 2, 2), (1, 2, 3)]),
                            bounds='A %dx%d, B %dx%d, all 4 components of every entry symbolic' % (sh[0], sh[1], sh[1], sh[2])))
    for n in (1, 2, 3):
        for side in ('left', 'right'):
            out.append(Cell('scalar_component[%s,n=%d]' % (side, n), 'c01:scalar_component', dict(n=n, side=side), domain='z',
                            tier='quick', bounds='quaternion scalar times %dx1 vector, all symbolic' % n))
    for sh in [(1, 1, 1), (2, 2, 2), (2, 3, 1), (3, 2, 3)]:
        for st in ('dense', 'sparse'):
            out.append(Cell('hermitian[%s,%dx%dx%d]' % ((st,) + sh), 'c01:hermitian', dict(m=sh[0], k=sh[1], n=sh[2], storage=st),
                            domain='z', tier='quick' if sh != (3, 2, 3) else 'thorough', twin=(sh == (2, 2, 2)),
                            bounds='A %dx%d, B %dx%d symbolic' % (sh[0], sh[1], sh[1], sh[2])))
    for sh in [(1, 1), (2, 2), (1, 3), (3, 2), (3, 3)]:
        out.append(Cell('frobenius[%dx%d]' % sh, 'c01:frobenius', dict(m=sh[0], n=sh[1]), domain='z', tier='quick',
                        twin=(sh == (2, 2)), bounds='A %dx%d symbolic' % sh))
    for sh, kind, tier in [((1, 1), 'diag', 'quick'), ((2, 2), 'diag', 'quick'), ((2, 1), 'refl', 'quick'),
                           ((2, 2), 'refl', 'thorough'), ((3, 2), 'diag', 'thorough')]:
        out.append(Cell('unitary_invariance[%s,%dx%d]' % ((kind,) + sh), 'c01:unitary_invariance', dict(m=sh[0], n=sh[1], kind=kind),
                        domain='a', tier=tier, timeout_s=300, twin=(sh == (1, 1)),
                        bounds='A %dx%d symbolic; U = %s' % (sh + ('diag(unit quaternions q/|q|), q symbolic' if kind == 'diag' else 'I - 2vv^H/v^Hv, v symbolic',))))
    for sh, tier in [((1, 1, 1), 'quick'), ((2, 1, 2), 'quick'), ((1, 2, 1), 'thorough'), ((2, 1, 1), 'quick')]:
        out.append(Cell('submult[%dx%dx%d]' % sh, 'c01:submult', dict(m=sh[0], k=sh[1], n=sh[2]), domain='z', tier=tier,
                        timeout_s=120, ob_timeout_ms=60000, twin=False, bounds='polynomial inequality on squared norms, 60 s cap'))
    return out
