"""Independent oracles shared by the property harnesses.  Everything here is
written from the mathematical definitions and works on both symbolic (shim) and
concrete (real numpy-quaternion) values."""

# Hamilton's relations i^2 = j^2 = k^2 = ijk = -1 give the basis-unit table
# e_a * e_b = sign * e_c  (index 0 = 1, 1 = i, 2 = j, 3 = k)
UNIT = {
    (0, 0): (1, 0), (0, 1): (1, 1), (0, 2): (1, 2), (0, 3): (1, 3),
    (1, 0): (1, 1), (1, 1): (-1, 0), (1, 2): (1, 3), (1, 3): (-1, 2),
    (2, 0): (1, 2), (2, 1): (-1, 3), (2, 2): (-1, 0), (2, 3): (1, 1),
    (3, 0): (1, 3), (3, 1): (1, 2), (3, 2): (-1, 1), (3, 3): (-1, 0),
}


def comps(env, A):
    """(…,4) component array of a quaternion array / scalar"""
    return env.quaternion.as_float_array(A)


def qmul_c(a, b):
    """Hamilton product of two component 4-sequences via the unit table"""
    out = [0, 0, 0, 0]
    for p in range(4):
        for q in range(4):
            s, c = UNIT[(p, q)]
            t = a[p] * b[q]
            out[c] = out[c] + t if s > 0 else out[c] - t
    return out


def matmul_oracle(env, A, B):
    """C_ij = sum_k A_ik * B_kj (Hamilton product), returned as an (m,n,4) nested list"""
    Af, Bf = comps(env, A), comps(env, B)
    m, k = Af.shape[0], Af.shape[1]
    n = Bf.shape[1]
    C = [[[0, 0, 0, 0] for _ in range(n)] for _ in range(m)]
    for i in range(m):
        for j in range(n):
            acc = [0, 0, 0, 0]
            for l in range(k):
                t = qmul_c([Af[i, l, c] for c in range(4)], [Bf[l, j, c] for c in range(4)])
                acc = [acc[c] + t[c] for c in range(4)]
            C[i][j] = acc
    return C


def as_nested(env, A):
    """quaternion matrix -> (m,n,4) nested list of scalars"""
    Af = comps(env, A)
    return [[[Af[i, j, c] for c in range(4)] for j in range(Af.shape[1])] for i in range(Af.shape[0])]


def herm_oracle(env, A):
    Af = comps(env, A)
    m, n = Af.shape[0], Af.shape[1]
    return [[[Af[i, j, 0], -Af[i, j, 1], -Af[i, j, 2], -Af[i, j, 3]] for i in range(m)] for j in range(n)]


def frob2(env, A):
    """sum of squared moduli from the definition"""
    tot = 0
    Af = comps(env, A)
    for v in Af.reshape(-1):
        tot = tot + v * v
    return tot


def sparse_to_nested(env, Sp):
    """SparseQuaternionMatrix -> (m,n,4) nested list"""
    parts = [Sp.real.toarray(), Sp.i.toarray(), Sp.j.toarray(), Sp.k.toarray()]
    m, n = parts[0].shape
    return [[[parts[c][i, j] for c in range(4)] for j in range(n)] for i in range(m)]


def qmat_from_nested(env, N):
    """(m,n,4) nested list -> quaternion array in the env's representation"""
    m, n = len(N), len(N[0])
    A = env.qzeros((m, n))
    for i in range(m):
        for j in range(n):
            A[i, j] = env.q(*N[i][j])
    return A


def eye_nested(n):
    return [[[1 if i == j else 0, 0, 0, 0] for j in range(n)] for i in range(n)]
