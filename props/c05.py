"""C05 - Q-SVD: the glue around the LAPACK call (embedding, contraction of U and V, every-4th
singular value, truncation)."""
from fractions import Fraction

from symex.runner import Cell
from . import common as cm
from .c02 import phi_interleaved, tolists, transpose_lists
from .c07 import cm_matmul_nested
from .c08 import _herm_nested

PROP = 'C05'


def _diag_nested(s, m, n):
    return [[[s[i] if i == j and i < len(s) else 0, 0, 0, 0] for j in range(n)] for i in range(m)]


def qsvd_glue(env, m, n, R=None):
    Qs = env.R.qsvd
    p = min(m, n)
    if not env.symbolic:
        # real library, real LAPACK, on X = U_q S V_q^H of this model: the clauses that do not depend
        # on LAPACK's choice of basis (values sorted and non-negative, shapes)
        Uq = env.qarr('u', (m, m))
        Vq = env.qarr('v', (n, n))
        s = [abs(float(env.real('s_%d' % i))) for i in range(p)]
        X = env.R.utils.quat_matmat(env.R.utils.quat_matmat(Uq, cm.qmat_from_nested(env, _diag_nested(s, m, n))), env.R.utils.quat_hermitian(Vq))
        U, sv, V = Qs.classical_qsvd_full(X) if R is None else Qs.classical_qsvd(X, R)
        r = p if R is None else R
        env.holds('shapes', tuple(U.shape) == (m, m if R is None else r) and tuple(V.shape) == (n, n if R is None else r) and len(sv) == r)
        env.holds('singular values non-negative and non-increasing', all(sv[i] >= -1e-12 for i in range(r)) and all(sv[i] >= sv[i + 1] - 1e-9 for i in range(r - 1)))
        import numpy as np
        ref = np.linalg.svd(env.R.utils.real_expand(X), compute_uv=False)[::4][:r]
        env.eq('singular values = every 4th singular value of the real embedding', list(sv), list(ref), tol=1e-8)
        if r == p and len(set(np.round(ref, 6))) == len(ref) and ref[-1] > 1e-6:
            # distinct non-zero singular values: LAPACK's factors are then determined up to unit phases
            Sm = cm.qmat_from_nested(env, [[[float(sv[i]) if i == j else 0, 0, 0, 0] for j in range(r)] for i in range(r)])
            Uk, Vk = U[:, :r], V[:, :r]
            rec = env.R.utils.quat_matmat(env.R.utils.quat_matmat(Uk, Sm), env.R.utils.quat_hermitian(Vk))
            env.eq('A = U S V^H (distinct singular values)', cm.as_nested(env, rec), cm.as_nested(env, X), tol=1e-7)
            env.eq('U^H U = I (distinct singular values)', cm.as_nested(env, env.R.utils.quat_matmat(env.R.utils.quat_hermitian(Uk), Uk)), cm.eye_nested(r), tol=1e-7)
        _structured_battery(env, X)
        return
    Uq = env.qarr('u', (m, m))
    Vq = env.qarr('v', (n, n))
    sig = env.rarr('s', (p,))
    for i in range(p):
        env.assume(sig[i] >= 0, 'sigma_i >= 0')
        if i:
            env.assume(sig[i - 1] >= sig[i], 'sigma sorted')
    Un, Vn = cm.as_nested(env, Uq), cm.as_nested(env, Vq)
    Xn = cm_matmul_nested(cm_matmul_nested(Un, _diag_nested(list(sig), m, n)), _herm_nested(Vn))
    X = cm.qmat_from_nested(env, Xn)
    seen = {}

    def svd_stub(a, full_matrices=True, compute_uv=True, **kw):
        if kw or not compute_uv:
            from symex.scalar import Unsupported
            raise Unsupported('np.linalg.svd called with options the contract stub does not model: %r' % (kw,))
        seen['a'] = a
        seen['full'] = full_matrices
        s4 = []
        for i in range(p):
            s4 += [sig[i]] * 4
        return (env.rconst_obj(phi_interleaved(env, Un)), env.rconst_obj([s4])[0],
                env.rconst_obj(transpose_lists(phi_interleaved(env, Vn))))
    env.stub_linalg('svd', svd_stub)
    if R is None:
        U, sv, V = Qs.classical_qsvd_full(env.twist(X))
        r = p
        wantU, wantV = Un, Vn
    else:
        U, sv, V = Qs.classical_qsvd(env.twist(X), R)
        r = R
        wantU, wantV = [row[:R] for row in Un], [row[:R] for row in Vn]
    env.holds('LAPACK SVD called with full_matrices=True', seen.get('full') is True)
    env.eq('LAPACK is handed the real embedding of the input', tolists(seen['a']), phi_interleaved(env, Xn))
    env.holds('output shapes', tuple(U.shape) == (m, len(wantU[0])) and tuple(V.shape) == (n, len(wantV[0])) and len(sv) == r)
    env.eq('U = contracted left factor (truncated)', cm.as_nested(env, U), wantU)
    env.eq('V = contracted right factor (Vt transposed, truncated)', cm.as_nested(env, V), wantV)
    env.eq('s = every 4th real singular value (truncated)', list(sv), list(sig[:r]))
    # reconstruction identity for the returned triple: A - U_R S_R V_R^H = U_{>R} S_{>R} V_{>R}^H
    Uo, Vo = cm.as_nested(env, U), cm.as_nested(env, V)
    rr = min(r, p)
    Sn = [[[sv[i] if i == j and i < rr else 0, 0, 0, 0] for j in range(len(Vo[0]))] for i in range(len(Uo[0]))]
    rec = cm_matmul_nested(cm_matmul_nested(Uo, Sn), _herm_nested(Vo))
    tail_s = [0 if i < rr else sig[i] for i in range(p)]
    tail = cm_matmul_nested(cm_matmul_nested(Un, _diag_nested(tail_s, m, n)), _herm_nested(Vn))
    env.eq('A - U_R S_R V_R^H = sum_{i>R} s_i u_i v_i^H', [[[a - b for a, b in zip(e1, e2)] for e1, e2 in zip(r1, r2)] for r1, r2 in zip(Xn, rec)], tail)


def _structured_battery(env, X):
    """real-library side only: the basis-independent clauses (values non-negative, sorted, equal to the true singular values; for distinct
    non-zero values also reconstruction and the Eckart-Young error of every truncation) on the structured inputs the property names -
    Hermitian indefinite, unitary, identity-like, rank-deficient, rectangular - built around the model's first entry
    (seeded change C05-e: an eigh fast path for Hermitian input that ordered by signed eigenvalue)"""
    import numpy as np
    Qs, ut, qn = env.R.qsvd, env.R.utils, env.quaternion
    rs = np.random.RandomState(2)
    x0 = qn.as_float_array(X)[0, 0, :]
    x0 = x0 if np.all(np.isfinite(x0)) and np.max(np.abs(x0)) < 1e3 else np.zeros(4)

    def q(a):
        return qn.as_quat_array(np.asarray(a, dtype=float))
    mats = []
    for n_, eigs in [(3, (1.0, -4.0, 2.0)), (4, (3.0, 1.0, -2.0, -5.0)), (2, (-3.0, 1.0))]:
        G = rs.randn(4 * n_, 4 * n_)
        Qr, _ = np.linalg.qr(ut.real_expand(q(rs.randn(n_, n_, 4) + 0.01 * x0)))
        Qq = ut.real_contract(Qr, n_, n_)          # quaternion unitary (full-rank generic input)
        D = np.zeros((n_, n_, 4)); D[range(n_), range(n_), 0] = eigs
        mats.append(('hermitian indefinite %dx%d' % (n_, n_), ut.quat_matmat(ut.quat_matmat(Qq, q(D)), ut.quat_hermitian(Qq))))
        mats.append(('diag%r' % (eigs,), q(D)))
    mats.append(('rectangular 4x2', q(rs.randn(4, 2, 4) + x0)))
    mats.append(('rectangular 2x4', q(rs.randn(2, 4, 4) + x0)))
    for tag, B in mats:
        m_, n_ = B.shape
        p_ = min(m_, n_)
        ref = np.linalg.svd(ut.real_expand(B), compute_uv=False)[::4][:p_]
        U, sv, V = Qs.classical_qsvd_full(B)
        sc = max(float(ref[0]), 1e-300)
        env.holds('[battery %s] singular values non-negative, non-increasing and equal to the true ones' % tag,
                  all(sv[i] >= -1e-12 for i in range(p_)) and all(sv[i] >= sv[i + 1] - 1e-9 * sc for i in range(p_ - 1)) and
                  float(np.max(np.abs(np.asarray(sv)[:p_] - ref))) <= 1e-8 * sc)
        if len(set(np.round(ref / sc, 6))) == p_ and ref[-1] > 1e-6 * sc:
            for R in range(1, p_ + 1):
                Ut_, st, Vt_ = Qs.classical_qsvd(B, R)
                Sm = np.zeros((R, R, 4)); Sm[range(R), range(R), 0] = st[:R]
                rec = ut.quat_matmat(ut.quat_matmat(Ut_, q(Sm)), ut.quat_hermitian(Vt_))
                e2 = float(np.sum((qn.as_float_array(B) - qn.as_float_array(rec)) ** 2))
                env.holds('[battery %s] rank-%d truncation attains the Eckart-Young optimum sum_{i>R} s_i^2' % (tag, R), abs(e2 - float(np.sum(ref[R:] ** 2))) <= 1e-7 * sc * sc)


def qsvd_1x1(env):
    """1x1 input with the contract-level stub: phi(a) = |a| * (orthogonal), all four real singular values are
    |a| and LAPACK may return ANY orthogonal U; only its first column u (a unit 4-vector) is read:
    the contraction gives a = u |a| conj(v) for every such choice"""
    Qs = env.R.qsvd
    a = env.quat('a')
    n2 = a.w * a.w + a.x * a.x + a.y * a.y + a.z * a.z
    if not env.symbolic:
        X = cm.qmat_from_nested(env, [[[a.w, a.x, a.y, a.z]]])
        U, sv, V = Qs.classical_qsvd_full(X)
        rec = cm.qmul_c(cm.qmul_c(cm.as_nested(env, U)[0][0], [sv[0], 0, 0, 0]), [V[0, 0].w, -V[0, 0].x, -V[0, 0].y, -V[0, 0].z])
        env.eq('a = u s conj(v)', rec, [a.w, a.x, a.y, a.z], tol=1e-8)
        return
    env.assume(n2 >= Fraction(1, 100), '|a|^2 >= 0.01')
    sg = env.real('sigma')
    env.assume(sg > 0, 'sigma > 0')
    env.assume(sg * sg == n2, 'sigma = |a|')
    Ucols = env.rarr('uu', (4, 4))
    u = [Ucols[i, 0] for i in range(4)]
    env.assume(sum((x * x for x in u), 0) == 1, 'first column of U is a unit vector')
    X = cm.qmat_from_nested(env, [[[a.w, a.x, a.y, a.z]]])
    phiA = phi_interleaved(env, [[[a.w, a.x, a.y, a.z]]])

    def svd_stub(A, full_matrices=True, **kw):
        # Vt = U^T phi(a) / sigma  (so that U diag(sigma) Vt = phi(a) whenever U is orthogonal)
        Vt = [[sum((Ucols[l, i] * phiA[l][j] for l in range(4)), 0) / sg for j in range(4)] for i in range(4)]
        return Ucols, env.rconst_obj([[sg] * 4])[0], env.rconst_obj(Vt)
    env.stub_linalg('svd', svd_stub)
    U, sv, V = Qs.classical_qsvd_full(X)
    un, vn = cm.as_nested(env, U)[0][0], cm.as_nested(env, V)[0][0]
    rec = cm.qmul_c(cm.qmul_c(un, [sv[0], 0, 0, 0]), [vn[0], -vn[1], -vn[2], -vn[3]])
    env.eq('a = u s conj(v) for every unit first column', rec, [a.w, a.x, a.y, a.z])
    env.eq('|u| = 1', [sum((x * x for x in un), 0)], [1])
    env.eq('|v| = 1', [sum((x * x for x in vn), 0)], [1])


META = {
    'explanation': 'bounded symbolic execution of classical_qsvd / classical_qsvd_full with np.linalg.svd replaced by a structured contract stub '
                   '(arbitrary symbolic quaternion factors in real-embedded form, each singular value four times): decides the embedding handed to '
                   'LAPACK, the contraction of U and of Vt^T, the every-4th-value selection, truncation and the reconstruction identity; the 1x1 case is '
                   'decided with the contract-level stub (any orthogonal U)',
    'outside_claim': ['that the contracted U, V are quaternion-orthonormal when singular values repeat or vanish: depends on which orthonormal basis LAPACK '
                      'returns inside a degenerate real singular subspace; not fixed by its contract, not encodable. Observed with the real library (not by '
                      'the solver): classical_qsvd_full of a rank-1 3x3 matrix returns U, V with ||U^H U - I||_F about 1 - see DESIGN.md section 6',
                      'Eckart-Young optimality beyond the reconstruction identity (needs orthonormality)', 'shapes > 3', 'rounding'],
    'assumptions': ['np.linalg.svd returns the real embedding of a quaternion factorisation with 4-fold singular values (stub)', 'floats modelled as exact reals'],
}


def cells():
    out = []
    for m in (1, 2, 3):
        for n in (1, 2, 3):
            out.append(Cell('qsvd_full_glue[%dx%d]' % (m, n), 'c05:qsvd_glue', dict(m=m, n=n), domain='z', timeout_s=900,
                            twin=((m, n) in [(2, 3), (3, 2)]), bounds='U_q %dx%d, V_q %dx%d, sigma symbolic' % (m, m, n, n)))
            for R in range(1, min(m, n) + 1):
                out.append(Cell('qsvd_trunc_glue[%dx%d,R=%d]' % (m, n, R), 'c05:qsvd_glue', dict(m=m, n=n, R=R), domain='z', timeout_s=900,
                                twin=((m, n, R) == (2, 2, 1)), bounds='truncation rank %d' % R))
    out.append(Cell('qsvd_1x1_any_orthogonal_U', 'c05:qsvd_1x1', {}, domain='a', tier='thorough', timeout_s=1800, ob_timeout_ms=120000, twin=False,
                    bounds='a symbolic, first column of the real U an arbitrary unit vector'))
    return out
