"""Runs the cells of one property in parallel, replays counterexamples on the
real library, applies the known-findings file, writes the evidence file and
returns the exit code.

exit 0  every clause that was decided holds on everything explored (clauses the
        solver could not decide inside its cap are listed as inconclusive in the
        evidence and are never counted as discharged)
exit 1  a counterexample was found by the solver AND reproduced on the real
        library (a line `VIOLATION property=<id> replay=<path>` per violation)
exit 3  harness error: the encoding could not be executed (unsupported
        operation), a counterexample did not reproduce on the real code, or a
        negative twin was not refuted (vacuous harness)
"""
import importlib
import json
import multiprocessing as mp
import os
import re
import sys
import time
import traceback
from fractions import Fraction

VERIF = os.path.dirname(os.path.dirname(os.path.abspath(__file__)))
EVIDENCE_DIR = os.environ.get('VERIF_EVIDENCE_DIR') or os.path.join(VERIF, 'evidence')
REPLAY_DIR = os.environ.get('VERIF_REPLAY_DIR') or os.path.join(VERIF, 'replays')
KNOWN = os.path.join(VERIF, 'known_findings.json')


class Cell:
    def __init__(self, name, func, params=None, domain='a', tier='quick', timeout_s=120,
                 max_paths=400, q_timeout_ms=5000, ob_timeout_ms=20000, twin=True,
                 events='violation', bounds='', conc_rtol=1e-6, expect_paths=None,
                 twin_timeout_s=None):
        self.name = name
        self.func = func                # 'module:function' relative to props package
        self.params = params or {}
        self.domain = domain
        self.tier = tier
        self.timeout_s = timeout_s
        self.max_paths = max_paths
        self.q_timeout_ms = q_timeout_ms
        self.ob_timeout_ms = ob_timeout_ms
        self.twin = twin
        self.events = events            # 'outside' | 'violation'
        self.bounds = bounds
        self.conc_rtol = conc_rtol
        self.twin_timeout_s = twin_timeout_s


def _resolve(func):
    mod, _, fn = func.partition(':')
    m = importlib.import_module('props.' + mod)
    return getattr(m, fn)


def _jsonable(v):
    if isinstance(v, Fraction):
        return float(v) if v.denominator > 10 ** 6 or abs(v.numerator) > 10 ** 12 else (
            int(v) if v.denominator == 1 else '%d/%d' % (v.numerator, v.denominator))
    return v


def _sf(v):
    try:
        return float(v)
    except OverflowError:
        return float('inf') if v > 0 else float('-inf')


def _vals_json(vals):
    return {k: ('frac:' + str(v) if isinstance(v, Fraction) else v) for k, v in vals.items()}


def _vals_load(d):
    return {k: Fraction(v[5:]) if isinstance(v, str) and v.startswith('frac:') else v for k, v in d.items()}


def _concrete(cell, vals, seed=0):
    """run the cell on the real library; returns (failures, log, error)"""
    from . import harness
    fn = _resolve(cell.func)
    env = harness.ConcEnv(vals, rtol=cell.conc_rtol, seed=seed, exact=(cell.domain == 'f'))
    err = None
    import warnings
    try:
        with warnings.catch_warnings():
            warnings.simplefilter('ignore')
            import numpy as np
            with np.errstate(all='ignore'):
                fn(env, **cell.params)
    except Exception as e:
        err = '%s: %s' % (type(e).__name__, e)
    return env, err


def run_cell(cell, twin=False):
    """executed in a child process"""
    from . import scalar as S, harness, loader, shim
    t0 = time.time()
    deadline = t0 + (cell.timeout_s if not twin else (cell.twin_timeout_s or cell.timeout_s)) * 0.92
    fn = _resolve(cell.func)
    res = {
        'cell': cell.name, 'twin': twin, 'paths': [], 'status': 'ok', 'violations': [],
        'unreproduced': [], 'errors': [], 'n_ob': 0, 'n_ok': 0, 'n_unknown': 0, 'n_trivial': 0,
        'queries': 0, 'solver_s': 0.0, 'forks': 0, 'decisions': 0, 'witness_ok': 0,
        'witness_fail': [], 'witness_skipped': 0, 'events': [], 'opaque': [], 'assumptions': [],
        'fallbacks': [], 'samples': [], 'leftover': 0, 'twin_refuted': False,
        'z3_unknown_branches': 0, 'natoms': 0, 'replays': 0,
    }
    holder = {}
    loader.repo()
    loader.reset_entered()

    def body():
        shim.NP.reset()
        shim.NP.linalg.stubs.clear()
        shim.SCIPYLINALG.__dict__['stubs'].clear()
        env = harness.SymEnv(twin=twin, ob_timeout_ms=cell.ob_timeout_ms, domain=cell.domain)
        holder['env'] = env
        try:
            fn(env, **cell.params)
        except harness.Counterexample:
            pass
        return env

    def on_path(r):
        env = holder.get('env')
        c = r.ctx
        res['queries'] += c.queries
        res['solver_s'] += c.solver_s
        res['forks'] += c.forks
        res['decisions'] += len(c.decisions)
        res['z3_unknown_branches'] += c.unknowns
        res['natoms'] = max(res['natoms'], c.natoms)
        for o in c.opaque:
            if o not in res['opaque']:
                res['opaque'].append(o)
        for lab, _ in c.assumptions:
            if lab and lab not in res['assumptions']:
                res['assumptions'].append(lab)
        p = {'decisions': ''.join('T' if d else 'F' for d in c.decisions), 'kind': r.kind}
        if env is not None:
            res['n_ob'] += env.n_ob
            res['n_ok'] += env.n_ok
            res['n_unknown'] += env.n_unknown
            res['n_trivial'] += env.n_trivial
            p['obligations'] = [(n, s) for n, s, _ in env.log][:40]
        if r.kind in ('unsupported',):
            res['errors'].append('unsupported on path %s: %s' % (p['decisions'], r.exc))
            p['exc'] = str(r.exc)
            # the encoding cannot follow the code here (exit 3 unless something is SHOWN): the path condition still has a
            # model, and the real library can be run on it - a clause failing there is a demonstrated violation
            if not twin and res.get('unsupported_witnesses', 0) < 6:
                res['unsupported_witnesses'] = res.get('unsupported_witnesses', 0) + 1
                rr, m = c.check()
                if rr == 'sat':
                    vals = {nm: S.model_value(m, zv) for nm, zv in c.zvar_by_name.items()}
                    nv = len(res['violations'])
                    nu = len(res['unreproduced'])
                    _replay(cell, res, 'unsupported-path witness: ' + str(r.exc)[:80], vals, p)
                    del res['unreproduced'][nu:]        # a passing witness adds nothing beyond the error already recorded
                    for v in res['violations'][nv:]:
                        v['found_by'] = 'real-library witness of a path the encoding could not follow'
        elif r.kind == 'budget':
            res['status'] = 'incomplete'
            p['exc'] = 'budget'
        elif r.kind == 'infeasible':
            pass
        elif r.kind == 'event':
            p['exc'] = '%s: %s' % (type(r.exc).__name__, r.exc)
            ev = {'path': p['decisions'], 'what': p['exc']}
            if cell.events == 'violation' and not twin:
                rr, m = c.check()
                if rr == 'sat':
                    vals = {nm: S.model_value(m, zv) for nm, zv in c.zvar_by_name.items()}
                    _replay(cell, res, 'event:' + p['exc'], vals, p)
            res['events'].append(ev)
        elif r.kind == 'raise':
            # an exception of the analysed code escaped the harness: candidate
            p['exc'] = '%s: %s' % (type(r.exc).__name__, r.exc)
            tb = ''.join(traceback.format_exception(type(r.exc), r.exc, r.exc.__traceback__)[-6:])
            p['tb'] = tb[-1500:]
            if twin:
                res['twin_refuted'] = True
            else:
                rr, m = c.check()
                vals = {}
                if rr == 'sat':
                    vals = {nm: S.model_value(m, zv) for nm, zv in c.zvar_by_name.items()}
                _replay(cell, res, 'unexpected-exception:' + type(r.exc).__name__, vals, p, tb=tb)
        if env is not None and env.cex:
            if twin:
                res['twin_refuted'] = True
            else:
                for name, vals in env.cex:
                    _replay(cell, res, name, vals, p)
        elif r.kind == 'return' and not twin and env is not None:
            # reachability witness + validation of the encoding at one point of this path
            if res['witness_ok'] + len(res['witness_fail']) < 40:
                import z3 as _z3
                bnd = [_z3.And(zv >= -64, zv <= 64) for nm, zv in c.inputs if _z3.is_real(zv)]
                rr, m = c.check(*bnd) if bnd else c.check()
                if rr != 'sat':
                    rr, m = c.check()
                if rr == 'sat':
                    vals = {nm: S.model_value(m, zv) for nm, zv in c.zvar_by_name.items()}
                    cenv, err = _concrete(cell, vals)
                    if err is None and not cenv.failures and not cenv.assume_failed:
                        res['witness_ok'] += 1
                    elif cenv.assume_failed:
                        res['witness_skipped'] += 1
                    else:
                        res['witness_fail'].append({'path': p['decisions'], 'err': err,
                                                    'failures': cenv.failures[:3],
                                                    'vals': {k: _sf(v) for k, v in list(vals.items())[:40]}})
                        # the inputs are the solver's model of this path condition and the clause fails on the
                        # REAL library: that is a replayed counterexample, whether or not the symbolic obligation
                        # of the same clause was decided within its time limit
                        nm0 = cenv.failures[0][0] if cenv.failures else 'unexpected-exception'
                        res['violations'].append({
                            'cell': cell.name, 'obligation': nm0, 'path': p['decisions'], 'vals': _vals_json(vals),
                            'func': cell.func, 'params': cell.params, 'conc_rtol': cell.conc_rtol, 'domain': cell.domain,
                            'concrete_failures': [list(f) for f in cenv.failures[:5]], 'concrete_error': err,
                            'found_by': 'path witness (solver model of the path condition) failing on the real library'})
                else:
                    res['witness_skipped'] += 1
        if len(res['samples']) < 3 and r.kind in ('return', 'raise', 'event'):
            sm = dict(p)
            sm.pop('tb', None)
            res['samples'].append(sm)
        res['paths'].append({'decisions': p['decisions'], 'kind': r.kind})

    try:
        out, left = S.explore(body, domain=cell.domain, max_paths=cell.max_paths,
                              timeout_ms=cell.q_timeout_ms, deadline=deadline, on_path=on_path)
        res['leftover'] = len(left)
        if left:
            res['status'] = 'incomplete'
    except Exception as e:
        res['errors'].append('harness exception: %s' % ''.join(traceback.format_exception(type(e), e, e.__traceback__)[-8:]))
    res['fallbacks'] = sorted(shim.NP.fallbacks)
    res['functions'] = loader.entered_functions()
    res['files'] = loader.repo().files
    res['wall_s'] = time.time() - t0
    return res


def _replay(cell, res, obname, vals, p, tb=None):
    res['replays'] += 1
    cenv, err = _concrete(cell, vals)
    if err is None and not cenv.failures and not cenv.assume_failed:
        # z3 models are often degenerate (many zeros); a clause that is violated for every value on
        # this path also fails on generic inputs.  Any failure demonstrated on the real library is a
        # real violation, whichever input shows it, so this can only turn a harness error into a
        # confirmed violation, never create a false alarm.
        tried = 0
        for seed in range(1, 61):
            if tried >= 3:
                break
            gen = {k: v for k, v in vals.items() if isinstance(v, str) or (isinstance(v, int) and not isinstance(v, bool))}   # keep option values
            c2, e2 = _concrete(cell, gen, seed=seed)
            if c2.assume_failed:
                continue          # the random point is outside the harness assumptions: draw another one
            tried += 1
            if e2 is not None or c2.failures:
                cenv, err = c2, e2
                vals = dict(c2.used)
                break
    rec = {'cell': cell.name, 'obligation': obname, 'path': p['decisions'],
           'vals': _vals_json(vals), 'func': cell.func, 'params': cell.params,
           'conc_rtol': cell.conc_rtol, 'domain': cell.domain}
    if cenv.assume_failed:
        rec['note'] = 'model violates harness assumption(s) %s after rounding to floats' % cenv.assume_failed
        res['unreproduced'].append(rec)
        return
    if err is not None or cenv.failures:
        rec['concrete_failures'] = [list(f) for f in cenv.failures[:5]]
        rec['concrete_error'] = err
        res['violations'].append(rec)
    else:
        if tb:
            rec['tb'] = tb[-1500:]
        if obname.startswith('event:'):
            # a possible division by zero / domain event whose inputs behave on the real library: not an error
            res.setdefault('events_benign', []).append({'obligation': obname, 'path': p['decisions']})
        else:
            res['unreproduced'].append(rec)


def _child(cell, twin, conn):
    try:
        r = run_cell(cell, twin)
    except BaseException as e:
        r = {'cell': cell.name, 'twin': twin, 'status': 'error',
             'errors': ['child crashed: %s' % ''.join(traceback.format_exception(type(e), e, e.__traceback__)[-8:])]}
    try:
        conn.send(r)
    finally:
        conn.close()


def run_cells(cells, jobs=None, verbose=True, budget=None):
    jobs = jobs or max(1, (os.cpu_count() or 4))
    todo = []
    for c in cells:
        todo.append((c, False))
        if c.twin:
            todo.append((c, True))
    # long cells first
    todo.sort(key=lambda t: -t[0].timeout_s)
    running = []
    results = []
    ctx = mp.get_context('fork')
    t_start = time.time()
    while todo or running:
        if budget is not None and time.time() - t_start > budget:
            for pr, pc, cell, twin, t0 in running:
                pr.kill()
                pr.join()
                results.append({'cell': cell.name, 'twin': twin, 'status': 'timeout', 'errors': [], 'wall_s': time.time() - t0})
                if verbose:
                    _brief(results[-1])
            for cell, twin in todo:
                results.append({'cell': cell.name, 'twin': twin, 'status': 'timeout', 'errors': [], 'wall_s': 0.0})
            running, todo = [], []
            break
        while todo and len(running) < jobs:
            cell, twin = todo.pop(0)
            pc, cc = ctx.Pipe(duplex=False)
            pr = ctx.Process(target=_child, args=(cell, twin, cc))
            pr.start()
            cc.close()
            running.append((pr, pc, cell, twin, time.time()))
        still = []
        for pr, pc, cell, twin, t0 in running:
            lim = cell.timeout_s if not twin else (cell.twin_timeout_s or cell.timeout_s)
            if pc.poll(0.02):
                try:
                    r = pc.recv()
                except EOFError:
                    r = {'cell': cell.name, 'twin': twin, 'status': 'error', 'errors': ['no result from child']}
                pr.join(5)
                results.append(r)
                if verbose:
                    _brief(r)
            elif not pr.is_alive():
                pr.join()
                if pc.poll(0.1):
                    try:
                        results.append(pc.recv())
                        if verbose:
                            _brief(results[-1])
                        continue
                    except EOFError:
                        pass
                results.append({'cell': cell.name, 'twin': twin, 'status': 'error',
                                'errors': ['child exited with code %s' % pr.exitcode]})
                if verbose:
                    _brief(results[-1])
            elif time.time() - t0 > lim + 5:
                pr.kill()
                pr.join()
                results.append({'cell': cell.name, 'twin': twin, 'status': 'timeout', 'errors': [],
                                'wall_s': time.time() - t0})
                if verbose:
                    _brief(results[-1])
            else:
                still.append((pr, pc, cell, twin, t0))
        running = still
        time.sleep(0.02)
    return results


def _brief(r):
    print('  [%s%s] status=%s paths=%d ob=%d ok=%d unk=%d viol=%d unrep=%d err=%d wit=%d/%d t=%.1fs' % (
        r.get('cell'), ' twin' if r.get('twin') else '', r.get('status'), len(r.get('paths', [])),
        r.get('n_ob', 0), r.get('n_ok', 0), r.get('n_unknown', 0), len(r.get('violations', [])),
        len(r.get('unreproduced', [])), len(r.get('errors', [])), r.get('witness_ok', 0),
        r.get('witness_ok', 0) + len(r.get('witness_fail', [])), r.get('wall_s', 0.0)), flush=True)
    for e in r.get('errors', [])[:2]:
        print('      error: %s' % e.strip()[-600:], flush=True)
    for w in r.get('witness_fail', [])[:2]:
        print('      witness mismatch: %s' % (str(w)[:400],), flush=True)
    for u in r.get('unreproduced', [])[:2]:
        print('      unreproduced cex: %s %s %s' % (u.get('obligation'), u.get('note', ''), u.get('tb', '')), flush=True)


# ---------------------------------------------------------------------------
def load_known():
    if not os.path.exists(KNOWN):
        return {'known': [], 'fixed': []}
    with open(KNOWN) as f:
        return json.load(f)


def match_known(known, prop, v):
    for k in known.get('known', []):
        if k.get('property') != prop:
            continue
        if re.search(k.get('cell_regex', '.*'), v['cell']) and re.search(k.get('obligation_regex', '.*'), v['obligation']):
            return k
    return None


def main_property(prop, tier, cells, meta, jobs=None):
    """meta: dict(title, outside_claim, stubs, assumptions, bounds, technique_note)"""
    t0 = time.time()
    seed = int(os.environ.get('VERIF_SEED', '0') or 0)
    os.makedirs(EVIDENCE_DIR, exist_ok=True)
    sel = [c for c in cells if c.tier == 'quick' or tier == 'thorough']
    if tier == 'thorough':
        cap = int(os.environ.get('VERIF_THOROUGH_CELL_CAP', '1500') or 1500)
        for c in sel:
            c.timeout_s = min(c.timeout_s, cap)      # bounds the wall time of one thorough run (cells run in parallel)
    budget = None
    if tier == 'thorough':
        # wall budget of one thorough run (default 50 min): cells not finished / not started by then are reported as timeouts (inconclusive)
        budget = int(os.environ.get('VERIF_THOROUGH_BUDGET', '3000') or 3000)
    if tier == 'quick':
        # the quick command is meant to run on every change: every cell is capped and the whole run has a wall budget;
        # cells still running at the budget are stopped and reported as timeouts (inconclusive), never as success
        budget = int(os.environ.get('VERIF_QUICK_BUDGET', '780') or 780)
        for c in sel:
            c.timeout_s = min(c.timeout_s, 420)
            if c.twin_timeout_s:
                c.twin_timeout_s = min(c.twin_timeout_s, 300)
    print('property %s tier=%s: %d cells' % (prop, tier, len(sel)), flush=True)
    results = run_cells(sel, jobs=jobs, budget=budget)
    known = load_known()
    violations, knownhits, harness_errors = [], [], []
    agg = dict(paths=0, decisions=0, n_ob=0, n_ok=0, n_unknown=0, n_trivial=0, queries=0, solver_s=0.0,
               witness_ok=0, witness_fail=0, replays=0, events=0, incomplete=0, timeouts=0,
               twins=0, twins_refuted=0)
    functions, files, samples, opaque, assumptions, fallbacks = set(), {}, [], set(), set(), set()
    cellrows = []
    for r in results:
        name = r.get('cell')
        if r.get('status') == 'timeout':
            agg['timeouts'] += 1
            cellrows.append({'cell': name, 'twin': r.get('twin'), 'status': 'timeout (inconclusive)'})
            continue
        if r.get('twin'):
            agg['twins'] += 1
            if r.get('twin_refuted'):
                agg['twins_refuted'] += 1
            elif r.get('status') == 'ok' and not r.get('errors'):
                harness_errors.append('negative twin of cell %s was not refuted (vacuous harness?)' % name)
            cellrows.append({'cell': name, 'twin': True, 'refuted': bool(r.get('twin_refuted')),
                             'paths': len(r.get('paths', [])), 'wall_s': round(r.get('wall_s', 0), 2)})
            continue
        for e in r.get('errors', []):
            harness_errors.append('cell %s: %s' % (name, e.strip()[-800:]))
        for u in r.get('unreproduced', []):
            harness_errors.append('cell %s: counterexample for %r did not reproduce on the real library %s' % (
                name, u['obligation'], u.get('note', '')))
        for v in r.get('violations', []):
            k = match_known(known, prop, v)
            if k is not None:
                knownhits.append((k, v))
            else:
                violations.append(v)
        for key in ('n_ob', 'n_ok', 'n_unknown', 'n_trivial', 'queries', 'solver_s', 'witness_ok', 'replays', 'decisions'):
            agg[key] += r.get(key, 0)
        agg['paths'] += len(r.get('paths', []))
        agg['witness_fail'] += len(r.get('witness_fail', []))
        agg['events'] += len(r.get('events', []))
        if r.get('status') == 'incomplete':
            agg['incomplete'] += 1
        functions.update(r.get('functions', []))
        files.update(r.get('files', {}))
        opaque.update(r.get('opaque', []))
        assumptions.update(r.get('assumptions', []))
        fallbacks.update(r.get('fallbacks', []))
        for s in r.get('samples', [])[:1]:
            if len(samples) < 6:
                samples.append({'cell': name, **s})
        cellrows.append({'cell': name, 'status': r.get('status'), 'paths': len(r.get('paths', [])),
                         'obligations': r.get('n_ob', 0), 'discharged': r.get('n_ok', 0),
                         'inconclusive': r.get('n_unknown', 0), 'events': len(r.get('events', [])),
                         'leftover_paths': r.get('leftover', 0), 'wall_s': round(r.get('wall_s', 0), 2),
                         'witness_ok': r.get('witness_ok', 0), 'witness_fail': len(r.get('witness_fail', [])),
                         'sqrt_atoms': r.get('natoms', 0)})
    # write replays
    out_lines = []
    seen_known = set()
    for k, v in knownhits:
        key = k.get('id', k.get('what'))
        if key in seen_known:
            continue
        seen_known.add(key)
        out_lines.append('KNOWN-FINDING: property=%s %s' % (prop, k.get('what')))
    vcount = 0
    for v in violations:
        os.makedirs(os.path.join(REPLAY_DIR, prop), exist_ok=True)
        fn = re.sub(r'[^A-Za-z0-9_.-]+', '_', '%s__%s' % (v['cell'], v['obligation']))[:110] + ('_p' + v['path'][:24] if v.get('path') else '') + '.json'
        path = os.path.join(REPLAY_DIR, prop, fn)
        with open(path, 'w') as f:
            json.dump(v, f, indent=1, default=str)
        out_lines.append('VIOLATION property=%s replay=%s' % (prop, path))
        out_lines.append('   cell=%s clause=%r path=%s concrete=%s' % (
            v['cell'], v['obligation'], v['path'], (v.get('concrete_failures') or v.get('concrete_error'))))
        vcount += 1
    bounds_cells = [{'cell': c.name, 'bounds': c.bounds, 'domain': {'a': 'AlgReal (normalised rational functions with sqrt atoms)', 'z': 'raw z3 Real terms', 'f': 'IEEE-754 binary64 (z3 FloatingPoint sort, RNE)'}[c.domain],
                     'max_paths': c.max_paths, 'query_timeout_ms': c.q_timeout_ms, 'params': {k: (v if isinstance(v, (int, float, str, bool, type(None))) else str(v)) for k, v in c.params.items()}} for c in sel]
    if not samples:
        samples = [{'note': 'no path completed'}]
    ev = {
        'property_id': prop,
        'tier': tier,
        'seed': seed,
        'level': 'model_checking',
        'coverage': {
            'states': max(agg['paths'], 0),
            'transitions': max(agg['decisions'], 0),
            'traces_validated_against_impl': agg['witness_ok'] + agg['replays'],
            'samples': samples,
            'obligations': agg['n_ob'],
            'discharged': agg['n_ok'],
            'discharged_syntactically_after_normalisation': agg['n_trivial'],
            'inconclusive': agg['n_unknown'],
            'cells': cellrows,
            'cells_incomplete_or_timed_out': agg['incomplete'] + agg['timeouts'],
            'division_by_zero_or_domain_event_paths': agg['events'],
            'negative_twins_run': agg['twins'],
            'negative_twins_refuted': agg['twins_refuted'],
            'witness_points_agreeing_with_real_library': agg['witness_ok'],
            'witness_points_disagreeing': agg['witness_fail'],
            'solver': 'z3 %s (python API)' % _z3ver(),
            'solver_queries': agg['queries'],
            'solver_seconds': round(agg['solver_s'], 3),
            'functions_encoded': sorted(functions),
            'files_sha256': files,
            'bounds': bounds_cells,
            'outside_claim': meta.get('outside_claim', []),
            'opaque_symbols': sorted(opaque),
            'numpy_fallbacks_used': sorted(fallbacks),
            'explanation': meta.get('explanation', ''),
            'exhaustive': False,
            'known_findings_hit': [k.get('id', k.get('what')) for k, _ in knownhits],
            'harness_errors': harness_errors[:20],
        },
        'assumptions': list(meta.get('assumptions', [])) + sorted('assume: ' + a for a in assumptions),
        'wall_s': round(time.time() - t0, 3),
        'violations': vcount,
    }
    if ev['coverage']['states'] < 1:
        ev['coverage']['states'] = 1
    if ev['coverage']['transitions'] < 1:
        ev['coverage']['transitions'] = 1
    with open(os.path.join(EVIDENCE_DIR, prop + '.json'), 'w') as f:
        json.dump(ev, f, indent=1, default=str)
    for l in out_lines:
        print(l, flush=True)
    print('summary %s: cells=%d paths=%d obligations=%d discharged=%d inconclusive=%d violations=%d known=%d '
          'harness_errors=%d timeouts=%d witness=%d/%d twins=%d/%d solver=%.1fs wall=%.1fs' % (
              prop, len(sel), agg['paths'], agg['n_ob'], agg['n_ok'], agg['n_unknown'], vcount, len(seen_known),
              len(harness_errors), agg['timeouts'], agg['witness_ok'], agg['witness_ok'] + agg['witness_fail'],
              agg['twins_refuted'], agg['twins'], agg['solver_s'], time.time() - t0), flush=True)
    if vcount:
        return 1
    if harness_errors:
        for h in harness_errors[:10]:
            print('HARNESS-ERROR: %s' % h, flush=True)
        return 3
    return 0


def _z3ver():
    import z3
    return z3.get_version_string()


def replay_file(path):
    with open(path) as f:
        v = json.load(f)
    cell = Cell(v['cell'], v['func'], v.get('params') or {}, conc_rtol=v.get('conc_rtol', 1e-6), domain=v.get('domain', 'a'))
    env, err = _concrete(cell, _vals_load(v['vals']))
    print('replay of %s clause %r on the real library:' % (v['cell'], v['obligation']))
    print('  inputs:', {k: x for k, x in env.used.items()})
    if err:
        print('  exception:', err)
    for n, d in env.failures:
        print('  FAILED clause %r: %s' % (n, d))
    if not err and not env.failures:
        print('  all clauses hold (not reproduced)')
        return 0
    return 1
