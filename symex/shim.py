"""Environment model: shim modules for numpy / quaternion / scipy / math / time
that the *unmodified* repository source is executed against.

Data movement (indexing, slicing, stacking, transposition, `@`, reductions) is
delegated to the real NumPy on dtype=object arrays of symbolic scalars, so
NumPy's real semantics for those operations are what is analysed.  Everything
listed here is part of every claim made by the checks.
"""
import builtins
import math as _math
import numbers
import types
from fractions import Fraction

import numpy as _np
import quaternion as _realquat   # only for the dtype object np.quaternion

from . import scalar as S
from .scalar import SR, K, SC, SymBool, lift, Unsupported, F0, F1

QDT = _np.dtype(_np.quaternion)
K0 = K(F0)
K1 = K(F1)
EPS = Fraction(1, 2 ** 52)


def _is0(c):
    return (isinstance(c, K) and c.v == 0) or (isinstance(c, (int, float)) and c == 0)


# ---------------------------------------------------------------------------
# real / complex arrays: object ndarrays of SR / SC
# ---------------------------------------------------------------------------
class RArr(_np.ndarray):
    """object ndarray holding symbolic scalars (stands for a float64 /
    complex128 array)"""

    def astype(self, t, *a, **k):
        if isinstance(t, _np.dtype):
            if t == object or t.kind in 'fc':
                return self.copy()
            if t.kind in 'iu':
                t = int
        if t in (float, _np.float64, _np.float32, complex, _np.complex128, ShimFloat, ShimComplex, 'float64', 'float'):
            return self.copy()
        if t in (int, _np.int64, _np.int32, 'int'):
            out = _np.empty(self.shape, dtype=int)
            for i, v in enumerate(self.flat):
                v = lift(v)
                if not isinstance(v, K):
                    raise Unsupported('astype(int) of symbolic values')
                out.flat[i] = int(v.v)
            return out
        if t is object:
            return self.copy()
        raise Unsupported('astype(%r)' % (t,))

    def __setitem__(self, idx, v):
        if isinstance(v, _np.ndarray) and v.ndim > 0 and v.size == 1:
            # float arrays accept a size-1 array for a single cell
            probe = _np.ndarray.__getitem__(self, idx)
            if not isinstance(probe, _np.ndarray):
                v = v.flat[0]
        if isinstance(v, QArr) or isinstance(v, SymQuat):
            raise Unsupported('assigning quaternions into a real array')
        _np.ndarray.__setitem__(self, idx, v)

    def max(self, axis=None, **k):
        return NP.max(self, axis=axis)

    def min(self, axis=None, **k):
        return NP.min(self, axis=axis)

    def conj(self):
        return NP.conjugate(self)

    def conjugate(self):
        return NP.conjugate(self)

    @property
    def real(self):
        return NP.real(self)

    @property
    def imag(self):
        return NP.imag(self)


def _wrap(a):
    if isinstance(a, _np.ndarray) and a.dtype == object and not isinstance(a, RArr):
        return a.view(RArr)
    return a


def robj(shape, fill=None):
    a = _np.empty(shape, dtype=object)
    if fill is not None:
        a.fill(fill)
    return a.view(RArr)


def to_robj(x):
    """any real/complex numeric array-like -> RArr of SR/SC (copy)"""
    if isinstance(x, QArr):
        raise Unsupported('quaternion array where a real array is expected')
    a = _np.array(x, dtype=object) if not isinstance(x, _np.ndarray) else x
    out = _np.empty(a.shape, dtype=object)
    for i, v in enumerate(a.flat):
        out.flat[i] = _liftc(v)
    return out.view(RArr)


def _liftc(v):
    if isinstance(v, (SR, SC)):
        return v
    if isinstance(v, (complex, _np.complexfloating)):
        return SC(v.real, v.imag)
    r = lift(v)
    if r is None:
        if isinstance(v, SymBool) or isinstance(v, (bool, _np.bool_)):
            return v
        if isinstance(v, _np.ndarray) and v.size == 1:
            return _liftc(v.flat[0])
        raise Unsupported('non-numeric array element %r' % (type(v),))
    return r


# ---------------------------------------------------------------------------
# quaternions
# ---------------------------------------------------------------------------
def _qcomps(o):
    """-> tuple (w,x,y,z) of SR scalars / object ndarrays, or None"""
    if isinstance(o, SymQuat):
        return (o.w, o.x, o.y, o.z)
    if isinstance(o, QArr):
        F = o.F
        return (F[..., 0], F[..., 1], F[..., 2], F[..., 3])
    if isinstance(o, _np.ndarray):
        if o.dtype == QDT:
            raise Unsupported('real numpy-quaternion array in the shim')
        return (o if o.dtype == object else to_robj(o), K0, K0, K0)
    if isinstance(o, SC):
        raise Unsupported('complex * quaternion')
    r = lift(o)
    if r is None:
        return None
    return (r, K0, K0, K0)


def _mkq(w, x, y, z):
    cs = (w, x, y, z)
    shapes = [c.shape for c in cs if isinstance(c, _np.ndarray)]
    if not shapes:
        return SymQuat(w, x, y, z)
    shape = _np.broadcast_shapes(*shapes)
    F = _np.empty(shape + (4,), dtype=object)
    for k, c in enumerate(cs):
        F[..., k] = c
    return QArr(F)


def _padd(a, b):
    if _is0(a): return b
    if _is0(b): return a
    return a + b


def _psub(a, b):
    if _is0(b): return a
    if _is0(a): return -b
    return a - b


def _pmul(a, b):
    if _is0(a) or _is0(b): return K0
    return a * b


def _qmul(a, b):
    aw, ax, ay, az = a
    bw, bx, by, bz = b
    w = _psub(_psub(_psub(_pmul(aw, bw), _pmul(ax, bx)), _pmul(ay, by)), _pmul(az, bz))
    x = _psub(_padd(_padd(_pmul(aw, bx), _pmul(ax, bw)), _pmul(ay, bz)), _pmul(az, by))
    y = _padd(_padd(_psub(_pmul(aw, by), _pmul(ax, bz)), _pmul(ay, bw)), _pmul(az, bx))
    z = _padd(_psub(_padd(_pmul(aw, bz), _pmul(ax, by)), _pmul(ay, bx)), _pmul(az, bw))
    return _mkq(w, x, y, z)


def _qinv(b):
    bw, bx, by, bz = b
    n = _padd(_padd(_padd(_pmul(bw, bw), _pmul(bx, bx)), _pmul(by, by)), _pmul(bz, bz))
    return (bw / n, -bx / n if not _is0(bx) else K0, -by / n if not _is0(by) else K0,
            -bz / n if not _is0(bz) else K0)


class _QBase:
    __array_ufunc__ = None
    __hash__ = None

    def __add__(self, o):
        b = _qcomps(o)
        if b is None: return NotImplemented
        a = _qcomps(self)
        return _mkq(*[_padd(p, q) for p, q in zip(a, b)])
    __radd__ = __add__

    def __sub__(self, o):
        b = _qcomps(o)
        if b is None: return NotImplemented
        a = _qcomps(self)
        return _mkq(*[_psub(p, q) for p, q in zip(a, b)])

    def __rsub__(self, o):
        b = _qcomps(o)
        if b is None: return NotImplemented
        a = _qcomps(self)
        return _mkq(*[_psub(q, p) for p, q in zip(a, b)])

    def __neg__(self):
        return _mkq(*[-c for c in _qcomps(self)])

    def __pos__(self):
        return self

    def __mul__(self, o):
        b = _qcomps(o)
        if b is None: return NotImplemented
        return _qmul(_qcomps(self), b)

    def __rmul__(self, o):
        b = _qcomps(o)
        if b is None: return NotImplemented
        return _qmul(b, _qcomps(self))

    def __truediv__(self, o):
        b = _qcomps(o)
        if b is None: return NotImplemented
        a = _qcomps(self)
        if _is0(b[1]) and _is0(b[2]) and _is0(b[3]):
            return _mkq(*[(c / b[0]) if not _is0(c) else K0 for c in a])
        return _qmul(a, _qinv(b))          # numpy-quaternion: a / b = a * b^-1

    def __rtruediv__(self, o):
        b = _qcomps(o)
        if b is None: return NotImplemented
        return _qmul(b, _qinv(_qcomps(self)))

    def conjugate(self):
        w, x, y, z = _qcomps(self)
        return _mkq(w, -x, -y, -z)
    conj = conjugate

    def __pow__(self, k):
        if isinstance(k, (int, _np.integer)) and k >= 1:
            r = self
            for _ in range(int(k) - 1):
                r = r * self
            return r
        raise Unsupported('quaternion power')


class SymQuat(_QBase):
    __slots__ = ('w', 'x', 'y', 'z')

    def __init__(self, w=0, x=None, y=None, z=None):
        if x is None and y is None and z is None:
            if isinstance(w, SymQuat):
                w, x, y, z = w.w, w.x, w.y, w.z
            else:
                x = y = z = 0
        elif z is None:            # quaternion(x, y, z): pure vector
            w, x, y, z = 0, w, x, y
        self.w, self.x, self.y, self.z = (self._l(w), self._l(x), self._l(y), self._l(z))

    @staticmethod
    def _l(v):
        r = lift(v)
        if r is None:
            if isinstance(v, _np.ndarray) and v.size == 1:
                return lift(v.flat[0])
            raise Unsupported('quaternion component %r' % (type(v),))
        return r

    @property
    def real(self): return self.w

    @property
    def components(self): return _wrap(_np.array([self.w, self.x, self.y, self.z], dtype=object))

    @property
    def vec(self): return _wrap(_np.array([self.x, self.y, self.z], dtype=object))

    def normsq(self):
        return self.w * self.w + self.x * self.x + self.y * self.y + self.z * self.z

    def norm(self):           # numpy-quaternion: Cayley norm = squared modulus
        return self.normsq()

    def abs(self):
        return S.sqrt(self.normsq())

    def __abs__(self):
        return S.sqrt(self.normsq())

    def inverse(self):
        return _mkq(*_qinv(_qcomps(self)))

    def __eq__(self, o):
        b = o if isinstance(o, SymQuat) else (SymQuat(o) if lift(o) is not None else None)
        if b is None: return False
        return S.sb_and([self.w == b.w, self.x == b.x, self.y == b.y, self.z == b.z])

    def __ne__(self, o):
        return S.sb_not(self.__eq__(o))

    def __bool__(self):
        return bool(S.sb_or([self.w != 0, self.x != 0, self.y != 0, self.z != 0]))

    def copy(self): return SymQuat(self.w, self.x, self.y, self.z)
    def __format__(self, spec): return '<symq>'
    def __repr__(self): return 'Q(%r,%r,%r,%r)' % (self.w, self.x, self.y, self.z)


class QArr(_QBase):
    """quaternion array; storage is an (...,4) object array so that
    as_float_array / as_quat_array alias it exactly like numpy-quaternion"""

    def __init__(self, F):
        assert isinstance(F, _np.ndarray) and F.dtype == object and F.shape[-1] == 4
        self.F = F

    # -- array protocol ------------------------------------------------------
    @property
    def shape(self): return self.F.shape[:-1]

    @property
    def ndim(self): return self.F.ndim - 1

    @property
    def size(self): return self.F.size // 4

    @property
    def dtype(self): return QDT

    @property
    def T(self): return self.transpose()

    def __len__(self):
        return self.F.shape[0]

    def __iter__(self):
        for i in range(self.F.shape[0]):
            yield self[i]

    @staticmethod
    def _idx(idx):
        if not isinstance(idx, tuple):
            idx = (idx,)
        if any(i is Ellipsis for i in idx):
            idx = idx + (slice(None),)
        return idx

    def __getitem__(self, idx):
        r = self.F[self._idx(idx)]
        if r.ndim == 1:
            return SymQuat(r[0], r[1], r[2], r[3])
        return QArr(r)

    _set_hook = None      # optional observer of item assignments (used by C10 to see deflations), never alters the assignment

    def __setitem__(self, idx, v):
        if QArr._set_hook is not None:
            QArr._set_hook(self, idx, v)
        idx = self._idx(idx)
        if isinstance(v, QArr):
            self.F[idx] = v.F
            return
        if isinstance(v, SymQuat):
            tgt = self.F[idx]
            tgt[..., 0] = v.w; tgt[..., 1] = v.x; tgt[..., 2] = v.y; tgt[..., 3] = v.z
            if tgt.base is None and not _np.shares_memory(tgt, self.F):
                self.F[idx] = tgt
            return
        if isinstance(v, (list, tuple)):
            v = NP.array(v, dtype=_np.quaternion)
            self.F[idx] = v.F
            return
        c = _qcomps(v)
        if c is None:
            raise Unsupported('assigning %r into a quaternion array' % (type(v),))
        q = _mkq(*c)
        if isinstance(q, SymQuat):
            self.__setitem__(idx if len(idx) > 1 else idx[0], q)
        else:
            self.F[idx] = q.F

    def copy(self): return QArr(self.F.copy())

    def transpose(self, *axes):
        n = self.ndim
        if not axes or axes == (None,):
            axes = tuple(range(n - 1, -1, -1))
        elif len(axes) == 1 and isinstance(axes[0], (tuple, list)):
            axes = tuple(axes[0])
        return QArr(self.F.transpose(tuple(axes) + (n,)))

    def reshape(self, *shape, **kw):
        if len(shape) == 1 and isinstance(shape[0], (tuple, list)):
            shape = tuple(shape[0])
        shape = tuple(int(s) for s in shape)
        return QArr(self.F.reshape(shape + (4,)))

    def flatten(self): return QArr(self.F.reshape(-1, 4).copy())
    def ravel(self): return QArr(self.F.reshape(-1, 4))
    def squeeze(self, axis=None): return NP.squeeze(self, axis)
    def swapaxes(self, a1, a2): return NP.swapaxes(self, a1, a2)

    def item(self):
        if self.size != 1:
            raise ValueError('can only convert an array of size 1 to a Python scalar')
        f = self.F.reshape(4)
        return SymQuat(f[0], f[1], f[2], f[3])

    def astype(self, t, *a, **k):
        if _isqdt(t):
            return self.copy()
        raise Unsupported('astype(%r) of a quaternion array' % (t,))

    def fill(self, v):
        self[...] = v

    def tolist(self):
        if self.ndim == 0:
            return self.item()
        return [self[i].tolist() if self.ndim > 1 else self[i] for i in range(len(self))]

    def __abs__(self):
        F = self.F
        return _wrap(NP.sqrt(F[..., 0] ** 2 + F[..., 1] ** 2 + F[..., 2] ** 2 + F[..., 3] ** 2))

    def sum(self, axis=None):
        return NP.sum(self, axis=axis)

    def __eq__(self, o):
        b = _qcomps(o)
        if b is None: return False
        a = _qcomps(self)
        out = None
        for p, q in zip(a, b):
            e = _elementwise2(p, q, lambda u, v: u == v)
            out = e if out is None else _elementwise2(out, e, lambda u, v: S.sb_and([u, v]))
        return out

    def __repr__(self): return 'QArr(shape=%s)' % (self.shape,)


def _elementwise2(a, b, f):
    a2, b2 = _np.broadcast_arrays(_np.asarray(a, dtype=object), _np.asarray(b, dtype=object))
    out = _np.empty(a2.shape, dtype=object)
    for i in range(out.size):
        out.flat[i] = f(a2.flat[i], b2.flat[i])
    return out.view(RArr)


def qzeros(shape):
    if isinstance(shape, (int, _np.integer)):
        shape = (int(shape),)
    F = _np.empty(tuple(shape) + (4,), dtype=object)
    F.fill(K0)
    return QArr(F)


def as_float_array(A):
    if isinstance(A, QArr):
        return A.F.view(RArr)
    if isinstance(A, SymQuat):
        return A.components
    if isinstance(A, (list, tuple)):
        return as_float_array(NP.array(A, dtype=_np.quaternion))
    if isinstance(A, _np.ndarray) and A.dtype == object and A.size and isinstance(A.flat[0], SymQuat):
        return as_float_array(NP.array(A, dtype=_np.quaternion))
    raise Unsupported('as_float_array of %r' % (type(A),))


def as_quat_array(F):
    if isinstance(F, QArr):
        return F
    F = F if isinstance(F, _np.ndarray) and F.dtype == object else to_robj(F)
    if F.shape[-1] != 4:
        raise ValueError('as_quat_array: last dimension must be 4')
    return QArr(_np.asarray(F).view(_np.ndarray))


QUATMOD = types.ModuleType('quaternion')
QUATMOD.quaternion = SymQuat
QUATMOD.as_float_array = as_float_array
QUATMOD.as_quat_array = as_quat_array
QUATMOD.one = SymQuat(1, 0, 0, 0)
QUATMOD.zero = SymQuat(0, 0, 0, 0)
QUATMOD.x = SymQuat(0, 1, 0, 0)
QUATMOD.y = SymQuat(0, 0, 1, 0)
QUATMOD.z = SymQuat(0, 0, 0, 1)


# ---------------------------------------------------------------------------
# builtins replaced inside the analysed modules
# ---------------------------------------------------------------------------
class _FloatMeta(type):
    def __instancecheck__(cls, o):
        return isinstance(o, (builtins.float, SR))

    def __eq__(cls, o):
        return o is cls or o is builtins.float

    def __hash__(cls):
        return hash(builtins.float)


class ShimFloat(metaclass=_FloatMeta):
    """float(x): identity on symbolic reals (floats are modelled as reals)"""

    def __new__(cls, v=0.0):
        if isinstance(v, SR):
            return v
        if isinstance(v, _np.ndarray) and v.dtype == object and v.size == 1:
            return lift(v.flat[0])
        if isinstance(v, SC):
            raise TypeError("float() argument must be a string or a real number, not 'complex'")
        return builtins.float(v)


class _ComplexMeta(type):
    def __instancecheck__(cls, o):
        return isinstance(o, (builtins.complex, SC))

    def __eq__(cls, o):
        return o is cls or o is builtins.complex

    def __hash__(cls):
        return hash(builtins.complex)


class ShimComplex(metaclass=_ComplexMeta):
    def __new__(cls, re=0.0, im=0.0):
        if isinstance(re, SC) and _is0(lift(im)):
            return re
        if isinstance(re, (SR,)) or isinstance(im, (SR,)):
            r, i = lift(re), lift(im)
            if isinstance(r, K) and isinstance(i, K):
                return builtins.complex(builtins.float(r.v), builtins.float(i.v))
            return SC(r, i)
        return builtins.complex(re, im)


def shim_int(v=0, *a):
    if isinstance(v, K):
        return int(v.v)
    if isinstance(v, SR):
        raise Unsupported('int() of a symbolic value')
    return builtins.int(v, *a)


class _IntMeta(type):
    def __instancecheck__(cls, o):
        return isinstance(o, builtins.int)

    def __eq__(cls, o):
        return o is cls or o is builtins.int

    def __hash__(cls):
        return hash(builtins.int)


class ShimInt(metaclass=_IntMeta):
    def __new__(cls, v=0, *a):
        return shim_int(v, *a)


def shim_print(*a, **k):
    return None


def shim_abs(x):
    return builtins.abs(x)


def shim_round(x, n=None):
    if isinstance(x, K):
        return round(builtins.float(x.v), n) if n is not None else round(x.v)
    if isinstance(x, SR):
        raise Unsupported('round() of a symbolic value')
    return builtins.round(x, n) if n is not None else builtins.round(x)


def shim_sum(it, start=0):
    tot = start
    for v in it:
        tot = tot + v
    return tot


# ---------------------------------------------------------------------------
# numpy facade
# ---------------------------------------------------------------------------
def _isq(x):
    return isinstance(x, (QArr, SymQuat))


def _isqdt(dtype):
    if dtype is None:
        return False
    try:
        return dtype is _np.quaternion or dtype == QDT
    except TypeError:
        return False


def _shape(shape):
    if isinstance(shape, (int, _np.integer)):
        return (int(shape),)
    return tuple(int(s) for s in shape)


def _map(a, f):
    """elementwise map over array-like / scalar"""
    if isinstance(a, _np.ndarray):
        out = _np.empty(a.shape, dtype=object)
        for i, v in enumerate(a.flat):
            out.flat[i] = f(_liftc(v))
        return out.view(RArr)
    if isinstance(a, (list, tuple)):
        return _map(to_robj(a), f)
    return f(_liftc(a))


def _sqrt1(v):
    if isinstance(v, SC):
        raise Unsupported('complex sqrt')
    return S.sqrt(v)


def _abs1(v):
    return abs(v)


class _Finfo:
    eps = K(EPS)
    tiny = K(Fraction(1, 2 ** 1022))
    max = K(Fraction(2 ** 1023))


class _Linalg:
    def __init__(self, np_):
        self._np = np_
        self.stubs = {}

    def norm(self, x, ord=None, axis=None, keepdims=False):
        if _isq(x):
            raise Unsupported('np.linalg.norm of a quaternion array')
        if axis is not None:
            raise Unsupported('np.linalg.norm with axis')
        a = x if isinstance(x, _np.ndarray) else to_robj(x)
        if isinstance(ord, str) and ord not in ('fro',):
            raise ValueError('Invalid norm order %r for matrices.' % (ord,) if a.ndim == 2
                             else "Invalid norm order '%s' for vectors" % (ord,))
        if ord is None or ord == 'fro' or (ord == 2 and a.ndim == 1):
            if ord == 'fro' and a.ndim != 2:
                raise ValueError("Invalid norm order 'fro' for vectors")
            tot = K0
            for v in a.flat:
                v = _liftc(v)
                tot = tot + (v.normsq() if isinstance(v, SC) else v * v)
            return S.sqrt(tot)
        if a.ndim == 1:
            if ord == 1:
                tot = K0
                for v in a.flat:
                    tot = tot + abs(_liftc(v))
                return tot
            if ord == _np.inf:
                return NP.max(_map(a, _abs1))
            raise Unsupported('vector norm ord=%r' % (ord,))
        if a.ndim == 2:
            if ord == 1:
                return NP.max(_map(a, _abs1).sum(axis=0))
            if ord == _np.inf:
                return NP.max(_map(a, _abs1).sum(axis=1))
            if ord == 2:
                st = self.stubs.get('norm2')
                if st is not None:
                    return st(a)
                raise Unsupported('spectral norm of a real matrix (LAPACK)')
            raise ValueError('Invalid norm order for matrices.')
        raise Unsupported('norm of ndim %d' % a.ndim)

    def __getattr__(self, name):
        if name.startswith('_'):
            raise AttributeError(name)
        stubs = self.stubs

        def _tramp(*a, **k):
            st = stubs.get(name)
            if st is None:
                raise Unsupported('np.linalg.%s is compiled LAPACK code and no contract stub is installed' % name)
            return st(*a, **k)
        return _tramp


class _RNG:
    """random generator whose draws are fresh symbolic reals ("for every draw")"""

    def __init__(self, np_, seed=None):
        self._np = np_
        self.seed = seed

    def _draw(self, shape, tag):
        hook = self._np._draw_hook
        if hook is not None:
            return hook(shape, tag)
        a = _np.empty(shape, dtype=object)
        for i in range(a.size):
            self._np._ndraw += 1
            a.flat[i] = S.CTX.newvar('rnd%d' % self._np._ndraw)
        return a.view(RArr)

    def standard_normal(self, size=None):
        return self._draw(_shape(size if size is not None else ()), 'standard_normal')

    def normal(self, loc=0.0, scale=1.0, size=None):
        return loc + scale * self._draw(_shape(size if size is not None else ()), 'normal')

    def randn(self, *shape):
        return self._draw(_shape(shape), 'randn')

    def seed_(self, s=None):
        self._np._seeds.append(s)


class _Random:
    def __init__(self, np_):
        self._np = np_
        self._g = _RNG(np_)

    def randn(self, *shape): return self._g.randn(*shape)
    def seed(self, s=None): self._np._seeds.append(s)
    def default_rng(self, seed=None):
        self._np._seeds.append(seed)
        return _RNG(self._np, seed)
    def standard_normal(self, size=None): return self._g.standard_normal(size)
    def normal(self, loc=0.0, scale=1.0, size=None): return self._g.normal(loc, scale, size)
    Generator = _RNG

    def __getattr__(self, name):
        raise Unsupported('np.random.%s' % name)


class _FFT:
    def __init__(self, np_):
        self._np = np_

    @staticmethod
    def _roots(n):
        """exact n-th roots of unity w^k = exp(-2 pi i k / n) as SC, n in {1,2,3,4,6}"""
        if n == 1:
            return [SC(1, 0)]
        if n == 2:
            return [SC(1, 0), SC(-1, 0)]
        if n == 4:
            return [SC(1, 0), SC(0, -1), SC(-1, 0), SC(0, 1)]
        if n in (3, 6):
            h = S.sqrt(K(Fraction(3))) * K(Fraction(1, 2))       # sqrt(3)/2
            if n == 3:
                return [SC(1, 0), SC(K(Fraction(-1, 2)), -h), SC(K(Fraction(-1, 2)), h)]
            half = K(Fraction(1, 2))
            return [SC(1, 0), SC(half, -h), SC(-half, -h), SC(-1, 0), SC(-half, h), SC(half, h)]
        raise Unsupported('exact DFT of size %d' % n)

    def _dft(self, n, inverse):
        w = self._roots(n)
        M = _np.empty((n, n), dtype=object)
        for j in range(n):
            for k in range(n):
                r = w[(j * k) % n]
                M[j, k] = r.conjugate() if inverse else r
        return M

    def _apply2(self, a, inverse):
        a = a if isinstance(a, _np.ndarray) else to_robj(a)
        if a.ndim != 2:
            raise Unsupported('fft2 of ndim %d' % a.ndim)
        H, W = a.shape
        FH, FW = self._dft(H, inverse), self._dft(W, inverse)
        out = _np.empty((H, W), dtype=object)
        # out = FH @ a @ FW^T
        tmp = _np.empty((H, W), dtype=object)
        for i in range(H):
            for j in range(W):
                acc = SC(0, 0)
                for u in range(H):
                    acc = acc + FH[i, u] * _liftc(a[u, j])
                tmp[i, j] = acc
        for i in range(H):
            for j in range(W):
                acc = SC(0, 0)
                for v in range(W):
                    acc = acc + tmp[i, v] * FW[j, v]
                if inverse:
                    acc = acc / (H * W)
                out[i, j] = acc
        return out.view(RArr)

    def fft2(self, a, *args, **kw):
        if args or kw:
            raise Unsupported('fft2 with extra arguments')
        return self._apply2(a, False)

    def ifft2(self, a, *args, **kw):
        if args or kw:
            raise Unsupported('ifft2 with extra arguments')
        return self._apply2(a, True)

    def __getattr__(self, name):
        raise Unsupported('np.fft.%s' % name)


class NPFacade(types.ModuleType):
    """what `import numpy as np` resolves to inside the analysed modules"""

    def __init__(self):
        super().__init__('numpy')
        self.linalg = _Linalg(self)
        self.random = _Random(self)
        self.fft = _FFT(self)
        self._ndraw = 0
        self._seeds = []
        self._draw_hook = None
        self.fallbacks = set()

    def reset(self):
        self._ndraw = 0
        self._seeds = []
        self.fallbacks = set()

    # constants / types
    quaternion = _np.quaternion
    ndarray = None      # set below (metaclass trick)
    inf = _np.inf
    pi = _np.pi
    nan = _np.nan
    newaxis = None
    float64 = _np.float64
    float32 = _np.float32
    complex128 = _np.complex128
    int64 = _np.int64
    int32 = _np.int32
    bool_ = _np.bool_
    floating = _np.floating
    integer = _np.integer
    complexfloating = _np.complexfloating
    number = _np.number
    generic = _np.generic
    ndindex = _np.ndindex
    broadcast_shapes = staticmethod(_np.broadcast_shapes)

    def finfo(self, t=None):
        return _Finfo

    def dtype(self, t):
        return _np.dtype(t)

    def errstate(self, **k):
        return _np.errstate()

    # -- creation --------------------------------------------------------
    def zeros(self, shape, dtype=None, **k):
        if _isqdt(dtype):
            return qzeros(_shape(shape))
        if dtype in (int, _np.int64, _np.int32, bool, _np.bool_):
            return _np.zeros(shape, dtype=dtype)
        if dtype in (complex, _np.complex128, ShimComplex):
            return robj(_shape(shape), SC(0, 0))
        return robj(_shape(shape), K0)

    def empty(self, shape, dtype=None, **k):
        return self.zeros(shape, dtype)

    def ones(self, shape, dtype=None, **k):
        if _isqdt(dtype):
            q = qzeros(_shape(shape))
            q.F[..., 0] = K1
            return q
        if dtype in (int, _np.int64, bool):
            return _np.ones(shape, dtype=dtype)
        return robj(_shape(shape), K1)

    def full(self, shape, v, dtype=None):
        return robj(_shape(shape), _liftc(v))

    def zeros_like(self, a, dtype=None, **k):
        if isinstance(a, QArr) and dtype is None:
            return qzeros(a.shape)
        if isinstance(a, _np.ndarray) and a.dtype != object and dtype is None and a.dtype.kind in 'iub':
            return _np.zeros_like(a)
        if isinstance(a, _np.ndarray) and a.dtype == object and a.size and isinstance(a.flat[0], SC):
            return robj(a.shape, SC(0, 0))
        return self.zeros(_np.shape(a) if not isinstance(a, QArr) else a.shape, dtype)

    def empty_like(self, a, dtype=None, **k):
        return self.zeros_like(a, dtype)

    def ones_like(self, a, dtype=None, **k):
        return self.ones(a.shape, dtype if dtype is not None else (_np.quaternion if isinstance(a, QArr) else None))

    def eye(self, n, m=None, k=0, dtype=None, **kw):
        m = n if m is None else m
        a = self.zeros((n, m), dtype)
        for i in range(n):
            j = i + k
            if 0 <= j < m:
                a[i, j] = SymQuat(1, 0, 0, 0) if _isqdt(dtype) else K1
        return a

    def identity(self, n, dtype=None):
        return self.eye(n, dtype=dtype)

    def array(self, obj, dtype=None, copy=True, **k):
        if isinstance(obj, QArr):
            return obj.copy()
        if isinstance(obj, SymQuat):
            return _mkq(*[_np.array(c, dtype=object) for c in _qcomps(obj)])
        if isinstance(obj, _np.ndarray):
            if obj.dtype == object:
                if obj.size and isinstance(obj.flat[0], SymQuat):
                    return self._qfromobj(obj)
                if _isqdt(dtype):
                    return self._qfromobj(obj)
                return obj.copy().view(RArr)
            if obj.dtype.kind in 'iub' and dtype is None:
                return obj.copy()
            if _isqdt(dtype):
                return self._qfromobj(obj.astype(object))
            return to_robj(obj)
        if isinstance(obj, (SR, SC)):
            return _wrap(_np.array(obj, dtype=object))
        if isinstance(obj, (int, float, complex, Fraction, _np.number)):
            if _isqdt(dtype):
                return self._qfromobj(_np.array(obj, dtype=object))
            return _wrap(_np.array(_liftc(obj), dtype=object))
        # nested sequence
        lst = self._tolist(obj)
        hasq = self._hasq(lst)
        if hasq or _isqdt(dtype):
            a = _np.array(lst, dtype=object)
            return self._qfromobj(a)
        if dtype in (int, _np.int64, bool) or (dtype is None and self._allint(lst)):
            return _np.array(lst, dtype=dtype)
        a = _np.array(lst, dtype=object)
        return to_robj(a)

    def asarray(self, obj, dtype=None, **k):
        if isinstance(obj, QArr):
            return obj
        if isinstance(obj, _np.ndarray) and obj.dtype == object and dtype is None:
            return _wrap(obj)
        if isinstance(obj, _np.ndarray) and obj.dtype.kind in 'iub' and dtype is None:
            return obj
        return self.array(obj, dtype)

    asanyarray = asarray
    ascontiguousarray = asarray

    def _tolist(self, obj):
        if isinstance(obj, QArr):
            return [self._tolist(obj[i]) for i in range(len(obj))] if obj.ndim else obj
        if isinstance(obj, _np.ndarray):
            if obj.ndim == 0:
                return obj.item() if obj.dtype != object else obj[()]
            return [self._tolist(v) for v in obj]
        if isinstance(obj, (list, tuple)):
            return [self._tolist(v) for v in obj]
        if hasattr(obj, '__iter__') and not isinstance(obj, (str, bytes)):
            return [self._tolist(v) for v in obj]
        return obj

    def _hasq(self, l):
        if isinstance(l, list):
            return any(self._hasq(v) for v in l)
        return isinstance(l, SymQuat)

    def _allint(self, l):
        if isinstance(l, list):
            return all(self._allint(v) for v in l)
        return isinstance(l, (int, _np.integer, bool)) and not isinstance(l, SR)

    def _qfromobj(self, a):
        F = _np.empty(a.shape + (4,), dtype=object)
        for idx in _np.ndindex(*a.shape):
            v = a[idx]
            q = v if isinstance(v, SymQuat) else SymQuat(v)
            F[idx + (0,)] = q.w; F[idx + (1,)] = q.x; F[idx + (2,)] = q.y; F[idx + (3,)] = q.z
        return QArr(F)

    def arange(self, *a, **k): return _np.arange(*a, **k)
    def linspace(self, *a, **k): return to_robj(_np.linspace(*[builtins.float(lift(x).v) if isinstance(x, SR) else x for x in a], **k))
    def meshgrid(self, *a, **k): return tuple(_np.meshgrid(*a, **k))
    def logspace(self, *a, **k): return to_robj(_np.logspace(*a, **k))

    def diag(self, v, k=0):
        if _isq(v):
            raise Unsupported('np.diag of quaternion array')
        a = v if isinstance(v, _np.ndarray) else to_robj(v)
        if a.ndim == 1:
            n = a.shape[0] + abs(k)
            out = self.zeros((n, n))
            for i in range(a.shape[0]):
                out[i + max(0, -k), i + max(0, k)] = a[i]
            return out
        return _wrap(_np.diag(a, k).copy())

    def fill_diagonal(self, a, v):
        for i in range(min(a.shape)):
            a[i, i] = v

    def copy(self, a):
        return a.copy()

    # -- structure -------------------------------------------------------
    def _seq(self, arrs):
        arrs = list(arrs)
        if any(isinstance(a, QArr) for a in arrs):
            if not all(isinstance(a, QArr) for a in arrs):
                arrs = [a if isinstance(a, QArr) else self.array(a, dtype=_np.quaternion) for a in arrs]
            return True, arrs
        return False, [a if isinstance(a, _np.ndarray) else self.asarray(a) for a in arrs]

    def stack(self, arrs, axis=0, **k):
        q, arrs = self._seq(arrs)
        if q:
            nd = arrs[0].ndim + 1
            ax = axis if axis >= 0 else axis + nd
            return QArr(_np.stack([a.F for a in arrs], axis=ax))
        return _wrap(_np.stack([self._obj(a) for a in arrs], axis=axis))

    def _obj(self, a):
        if isinstance(a, _np.ndarray) and a.dtype != object:
            return to_robj(a)
        return a

    def concatenate(self, arrs, axis=0, **k):
        q, arrs = self._seq(arrs)
        if q:
            ax = axis if axis >= 0 else axis + arrs[0].ndim
            return QArr(_np.concatenate([a.F for a in arrs], axis=ax))
        return _wrap(_np.concatenate([self._obj(a) for a in arrs], axis=axis))

    def hstack(self, arrs):
        q, arrs = self._seq(arrs)
        if q:
            return self.concatenate(arrs, axis=0 if arrs[0].ndim == 1 else 1)
        return _wrap(_np.hstack([self._obj(a) for a in arrs]))

    def vstack(self, arrs):
        q, arrs = self._seq(arrs)
        if q:
            arrs = [a if a.ndim > 1 else a.reshape(1, -1) for a in arrs]
            return self.concatenate(arrs, axis=0)
        return _wrap(_np.vstack([self._obj(a) for a in arrs]))

    def column_stack(self, arrs):
        q, arrs = self._seq(arrs)
        if q:
            arrs = [a if a.ndim > 1 else a.reshape(-1, 1) for a in arrs]
            return self.concatenate(arrs, axis=1)
        return _wrap(_np.column_stack([self._obj(a) for a in arrs]))

    def transpose(self, a, axes=None):
        if isinstance(a, QArr):
            return a.transpose(axes) if axes is not None else a.transpose()
        return _wrap(_np.transpose(self.asarray(a), axes))

    def reshape(self, a, shape, **k):
        if isinstance(a, QArr):
            return a.reshape(shape)
        return _wrap(_np.reshape(a, shape))

    def roll(self, a, shift, axis=None):
        if isinstance(a, QArr):
            ax = axis if axis is None or axis >= 0 else axis + a.ndim
            if ax is None:
                raise Unsupported('roll of quaternion array without axis')
            return QArr(_np.roll(a.F, shift, axis=ax))
        return _wrap(_np.roll(a, shift, axis=axis))

    def squeeze(self, a, axis=None):
        if isinstance(a, QArr):
            if axis is None:
                keep = tuple(d for d in a.shape if d != 1)
                return a.reshape(keep) if keep else a.reshape(())
            ax = axis if axis >= 0 else axis + a.ndim
            return QArr(_np.squeeze(a.F, axis=ax))
        return _wrap(_np.squeeze(a, axis=axis))

    def atleast_1d(self, a):
        if isinstance(a, SymQuat):
            return self.array([a])
        if isinstance(a, QArr):
            return a if a.ndim >= 1 else a.reshape((1,))
        return _wrap(_np.atleast_1d(self._obj(self.asarray(a))))

    def atleast_2d(self, a):
        if isinstance(a, SymQuat):
            return self.array([[a]])
        if isinstance(a, QArr):
            if a.ndim >= 2:
                return a
            return a.reshape((1, a.shape[0])) if a.ndim == 1 else a.reshape((1, 1))
        return _wrap(_np.atleast_2d(self._obj(self.asarray(a))))

    def expand_dims(self, a, axis):
        if isinstance(a, QArr):
            ax = axis if axis >= 0 else axis + a.ndim + 1
            return QArr(_np.expand_dims(a.F, ax))
        return _wrap(_np.expand_dims(a, axis))

    def swapaxes(self, a, a1, a2):
        if isinstance(a, QArr):
            n = a.ndim
            return QArr(_np.swapaxes(a.F, a1 % n, a2 % n))
        return _wrap(_np.swapaxes(a, a1, a2))

    def flip(self, a, axis=None):
        if isinstance(a, QArr):
            if axis is None:
                axis = tuple(range(a.ndim))
            axs = (axis,) if isinstance(axis, int) else tuple(axis)
            return QArr(_np.flip(a.F, axis=tuple(x % a.ndim for x in axs)))
        return _wrap(_np.flip(a, axis=axis))

    def flipud(self, a):
        return self.flip(a, 0)

    def fliplr(self, a):
        return self.flip(a, 1)

    def ravel(self, a):
        return a.ravel() if isinstance(a, QArr) else _wrap(_np.ravel(a))

    def tile(self, a, reps):
        if isinstance(a, QArr):
            raise Unsupported('tile of quaternion array')
        return _wrap(_np.tile(a, reps))

    def count_nonzero(self, a, axis=None):
        if axis is not None:
            raise Unsupported('count_nonzero with axis')
        if isinstance(a, QArr):
            F = a.F.reshape(-1, 4)
            return builtins.sum(1 for i in range(F.shape[0]) if bool(S.sb_or([F[i, c] != 0 for c in range(4)])))
        a = a if isinstance(a, _np.ndarray) else self.asarray(a)
        return builtins.sum(1 for v in a.flat if bool(_liftc(v) != 0))

    def nonzero(self, a):
        raise Unsupported('np.nonzero')

    def conjugate(self, a):
        if _isq(a):
            return a.conjugate()
        return _map(a, lambda v: v.conjugate())
    conj = conjugate

    def real(self, a):
        if _isq(a):
            raise Unsupported('np.real of quaternion')
        return _map(a, lambda v: v.re if isinstance(v, SC) else v)

    def imag(self, a):
        if _isq(a):
            raise Unsupported('np.imag of quaternion')
        return _map(a, lambda v: v.im if isinstance(v, SC) else K0)

    def isscalar(self, x):
        return isinstance(x, (numbers.Number, str, bytes, _np.generic))

    def shape(self, a):
        return a.shape if isinstance(a, QArr) else _np.shape(a)

    def ndim(self, a):
        return a.ndim if isinstance(a, QArr) else _np.ndim(a)

    def size(self, a):
        return a.size if isinstance(a, QArr) else _np.size(a)

    # -- element-wise math ---------------------------------------------------
    def sqrt(self, a):
        if _isq(a):
            raise Unsupported('sqrt of quaternion')
        return _map(a, _sqrt1)

    def abs(self, a):
        if _isq(a):
            return abs(a)
        return _map(a, _abs1)
    absolute = abs

    def square(self, a):
        return a * a

    def power(self, a, k):
        return a ** k

    def exp(self, a):
        def f(v):
            if isinstance(v, K):
                if v.v == 0:
                    return K1
                return S.opaque('exp(%s)' % (v.v,), positive=True) if S.CTX is not None else K(Fraction(_math.exp(v.v)))
            return S.opaque('exp(sym)', positive=True)
        return _map(a, f)

    def _conc1(self, a, f, name):
        def g(v):
            if isinstance(v, K):
                return K(Fraction(f(builtins.float(v.v))))
            raise Unsupported('np.%s of a symbolic value' % name)
        return _map(a, g)

    def cos(self, a): return self._conc1(a, _math.cos, 'cos')
    def sin(self, a): return self._conc1(a, _math.sin, 'sin')
    def deg2rad(self, a): return self._conc1(a, _math.radians, 'deg2rad')
    def log10(self, a): return self._conc1(a, _math.log10, 'log10')
    def log(self, a): return self._conc1(a, _math.log, 'log')

    def isfinite(self, a):
        def f(v):
            if isinstance(v, K):
                return v.isfinite()
            return True
        r = _map(a, f)
        return r if not isinstance(r, _np.ndarray) else r.astype(bool) if False else _np.array(r.tolist(), dtype=bool)

    def isnan(self, a):
        def f(v):
            return isinstance(v, K) and v.v != v.v
        r = _map(a, f)
        return r if not isinstance(r, _np.ndarray) else _np.array(r.tolist(), dtype=bool)

    def clip(self, a, lo, hi):
        def f(v):
            if v < lo: return _liftc(lo)
            if v > hi: return _liftc(hi)
            return v
        return _map(a, f)

    def maximum(self, a, b):
        return _elementwise2(a, b, lambda u, v: u if u >= v else v)

    def minimum(self, a, b):
        return _elementwise2(a, b, lambda u, v: u if u <= v else v)

    def where(self, cond, x=None, y=None):
        if x is None:
            raise Unsupported('np.where(cond)')
        c, xx, yy = _np.broadcast_arrays(_np.asarray(cond, dtype=object), _np.asarray(x, dtype=object), _np.asarray(y, dtype=object))
        out = _np.empty(c.shape, dtype=object)
        for i in range(out.size):
            out.flat[i] = _liftc(xx.flat[i]) if bool(c.flat[i]) else _liftc(yy.flat[i])
        return out.view(RArr)

    # -- reductions ----------------------------------------------------------
    def sum(self, a, axis=None, **k):
        if isinstance(a, QArr):
            if axis is None:
                F = a.F.reshape(-1, 4)
                return SymQuat(*[shim_sum(F[:, c], K0) for c in range(4)])
            ax = axis if axis >= 0 else axis + a.ndim
            return QArr(_np.sum(a.F, axis=ax))
        a = a if isinstance(a, _np.ndarray) else self.asarray(a)
        if a.dtype == object and a.size and any(isinstance(v, (SymBool, bool, _np.bool_)) for v in a.flat):
            if axis is not None:
                raise Unsupported('sum of booleans with axis')
            return builtins.sum(1 for v in a.flat if bool(v))
        if a.dtype != object:
            return _np.sum(a, axis=axis)
        if axis is None:
            return shim_sum(a.flat, K0)
        return _wrap(_np.sum(a, axis=axis))

    def prod(self, a, axis=None, **k):
        a = a if isinstance(a, _np.ndarray) else self.asarray(a)
        if axis is not None:
            raise Unsupported('prod with axis')
        r = K1
        for v in a.flat:
            r = r * _liftc(v)
        return r

    def mean(self, a, axis=None, **k):
        a = a if isinstance(a, _np.ndarray) else self.asarray(a)
        if axis is not None:
            raise Unsupported('mean with axis')
        return self.sum(a) / a.size

    def trace(self, a):
        return shim_sum([a[i, i] for i in range(min(a.shape))], K0)

    def _extreme(self, vals, kind):
        """max / min of a list of scalars.  Up to two symbolic candidates: comparison
        (forks).  More: a fresh variable M with  M >= v_i for all i  and  M == v_i for
        some i  (exact semantics of max, no path split)."""
        vals = [_liftc(v) for v in vals]
        if any(isinstance(v, SC) for v in vals):
            raise Unsupported('max/min of complex values')
        gt = (lambda u, v: u > v) if kind == 'max' else (lambda u, v: u < v)
        ge = '>=' if kind == 'max' else '<='
        consts = [v for v in vals if isinstance(v, K)]
        syms = [v for v in vals if not isinstance(v, K)]
        if not syms:
            best = consts[0]
            for v in consts[1:]:
                if gt(v.v, best.v):
                    best = v
            return best
        if len(syms) <= 2 or S.CTX.domain == 'f':
            best = vals[0]
            for v in vals[1:]:
                if bool(gt(v, best)):
                    best = v
            return best
        if consts:
            cb = consts[0]
            for v in consts[1:]:
                if gt(v.v, cb.v):
                    cb = v
            cand = syms + [cb]
        else:
            cand = syms
        lazy = all((isinstance(v, S.LazySqrt) and not v.forced) or (isinstance(v, K) and v.v >= 0) for v in cand)
        M = S.fresh('max' if kind == 'max' else 'min')
        c = S.CTX
        rads = [(v.rad if isinstance(v, S.LazySqrt) else K(v.v * v.v)) for v in cand] if lazy else cand
        ges, eqs = [], []
        for r in rads:
            ges.append(S._cmp(M, r, ge))
            eqs.append(S._cmp(M, r, '=='))
        g = S.sb_and(ges)
        e = S.sb_or(eqs)
        for x in (g, e):
            if isinstance(x, SymBool):
                c.add(x.e)
            elif not x:
                raise S.Infeasible('max constraint')
        return S.sqrt(M) if lazy else M

    def _red(self, a, axis, kind):
        if _isq(a):
            raise Unsupported('max/min of quaternion array')
        a = a if isinstance(a, _np.ndarray) else self.asarray(a)
        if a.dtype != object:
            a = to_robj(a)
        if axis is None:
            if a.size == 0:
                raise ValueError('zero-size array to reduction operation %s which has no identity' % ('maximum' if kind == 'max' else 'minimum'))
            return self._extreme(list(a.flat), kind)
        ax = axis if axis >= 0 else axis + a.ndim
        moved = _np.moveaxis(a, ax, -1)
        out = _np.empty(moved.shape[:-1], dtype=object)
        for idx in _np.ndindex(*out.shape):
            out[idx] = self._extreme(list(_np.asarray(moved[idx]).flat), kind)
        return out.view(RArr)

    def max(self, a, axis=None, **k):
        return self._red(a, axis, 'max')
    amax = max

    def min(self, a, axis=None, **k):
        return self._red(a, axis, 'min')
    amin = min

    def argmax(self, a, axis=None):
        if axis is not None:
            a = a if isinstance(a, _np.ndarray) else self.asarray(a)
            moved = _np.moveaxis(a, axis, -1)
            out = _np.empty(moved.shape[:-1], dtype=int)
            for idx in _np.ndindex(*out.shape):
                out[idx] = self.argmax(_np.asarray(moved[idx]))
            return out
        a = a if isinstance(a, _np.ndarray) else self.asarray(a)
        best, bi = None, 0
        for i, v in enumerate(a.flat):
            v = _liftc(v)
            if best is None or bool(v > best):
                best, bi = v, i
        return bi

    def argmin(self, a, axis=None):
        if axis is not None:
            a = a if isinstance(a, _np.ndarray) else self.asarray(a)
            moved = _np.moveaxis(a, axis, -1)
            out = _np.empty(moved.shape[:-1], dtype=int)
            for idx in _np.ndindex(*out.shape):
                out[idx] = self.argmin(_np.asarray(moved[idx]))
            return out
        a = a if isinstance(a, _np.ndarray) else self.asarray(a)
        best, bi = None, 0
        for i, v in enumerate(a.flat):
            v = _liftc(v)
            if best is None or bool(v < best):
                best, bi = v, i
        return bi

    def any(self, a, axis=None):
        if axis is not None:
            raise Unsupported('any with axis')
        if isinstance(a, (SymBool, bool, _np.bool_)):
            return bool(a)
        a = a if isinstance(a, _np.ndarray) else _np.asarray(a, dtype=object)
        if a.dtype != object:
            return bool(_np.any(a))
        return bool(S.sb_or([v if isinstance(v, (SymBool, bool, _np.bool_)) else (_liftc(v) != 0) for v in a.flat]))

    def all(self, a, axis=None):
        if axis is not None:
            raise Unsupported('all with axis')
        if isinstance(a, (SymBool, bool, _np.bool_)):
            return bool(a)
        a = a if isinstance(a, _np.ndarray) else _np.asarray(a, dtype=object)
        if a.dtype != object:
            return bool(_np.all(a))
        return bool(S.sb_and([v if isinstance(v, (SymBool, bool, _np.bool_)) else (_liftc(v) != 0) for v in a.flat]))

    def _close(self, a, b, rtol, atol):
        """list of per-entry conditions |a-b| <= atol + rtol*|b| (numpy's documented formula;
        for quaternion arrays |.| is the quaternion modulus, as in numpy-quaternion)"""
        conds = []
        if _isq(a) or _isq(b):
            A = a if isinstance(a, QArr) else self.array(a, dtype=_np.quaternion)
            B = b if isinstance(b, QArr) else self.array(b, dtype=_np.quaternion)
            FA, FB = _np.broadcast_arrays(A.F, B.F)
            FA = FA.reshape(-1, 4); FB = FB.reshape(-1, 4)
            for i in range(FA.shape[0]):
                d = [FA[i, c] - FB[i, c] for c in range(4)]
                if all(_is0(x) for x in d):
                    continue
                dn = d[0] * d[0] + d[1] * d[1] + d[2] * d[2] + d[3] * d[3]
                if rtol == 0:
                    conds.append(dn <= K(Fraction(atol) ** 2))
                else:
                    bn = S.sqrt(FB[i, 0] ** 2 + FB[i, 1] ** 2 + FB[i, 2] ** 2 + FB[i, 3] ** 2)
                    conds.append(S.sqrt(dn) <= atol + rtol * bn)
            return conds
        A, B = _np.broadcast_arrays(_np.asarray(a, dtype=object), _np.asarray(b, dtype=object))
        for i in range(A.size):
            u, v = _liftc(A.flat[i]), _liftc(B.flat[i])
            d = u - v
            if _is0(d):
                continue
            if isinstance(u, SC) or isinstance(v, SC):
                conds.append(abs(d) <= atol + rtol * abs(v))
                continue
            bound = atol + rtol * abs(v) if not (isinstance(v, K) and rtol * abs(v.v) == 0) else atol
            if isinstance(lift(bound), K) and lift(bound).v >= 0:
                conds.append(d * d <= lift(bound) * lift(bound))      # |d| <= c without a sign split
            else:
                conds.append(abs(d) <= bound)
        return conds

    def allclose(self, a, b, rtol=1e-05, atol=1e-08, **k):
        # evaluated entry by entry (short-circuit): each solver query then involves one entry only
        for c in self._close(a, b, rtol, atol):
            if not bool(c):
                return False
        return True

    def isclose(self, a, b, rtol=1e-05, atol=1e-08, **k):
        if _isq(a) or _isq(b):
            raise Unsupported('np.isclose on quaternion arrays (array result)')
        sa = not isinstance(a, (_np.ndarray, list, tuple))
        sb = not isinstance(b, (_np.ndarray, list, tuple))
        if sa and sb:
            c = self._close(a, b, rtol, atol)
            return S.sb_and(c)
        A, B = _np.broadcast_arrays(_np.asarray(a, dtype=object), _np.asarray(b, dtype=object))
        out = _np.empty(A.shape, dtype=object)
        for i in range(A.size):
            out.flat[i] = S.sb_and(self._close(A.flat[i], B.flat[i], rtol, atol))
        return out.view(RArr)

    def array_equal(self, a, b):
        return self.allclose(a, b, 0, 0)

    # -- products -------------------------------------------------------------
    def dot(self, a, b):
        if _isq(a) or _isq(b):
            raise Unsupported('np.dot with quaternion arrays')
        return _wrap(_np.dot(self._obj(self.asarray(a)), self._obj(self.asarray(b))))

    def matmul(self, a, b):
        return self.asarray(a) @ self.asarray(b)

    def vdot(self, a, b):
        a, b = self.asarray(a), self.asarray(b)
        tot = K0
        for u, v in zip(a.flat, b.flat):
            tot = tot + _liftc(u).conjugate() * _liftc(v)
        return tot

    def outer(self, a, b):
        return _wrap(_np.outer(self._obj(self.asarray(a)), self._obj(self.asarray(b))))

    def kron(self, a, b):
        return _wrap(_np.kron(self._obj(self.asarray(a)), self._obj(self.asarray(b))))

    def tril(self, a, k=0):
        a = self.asarray(a).copy()
        for i in range(a.shape[0]):
            for j in range(a.shape[1]):
                if j > i + k:
                    a[i, j] = K0
        return a

    def triu(self, a, k=0):
        a = self.asarray(a).copy()
        for i in range(a.shape[0]):
            for j in range(a.shape[1]):
                if j < i + k:
                    a[i, j] = K0
        return a

    def broadcast_arrays(self, *a):
        return tuple(_wrap(x) for x in _np.broadcast_arrays(*a))

    def moveaxis(self, a, s, d):
        if isinstance(a, QArr):
            raise Unsupported('moveaxis of quaternion array')
        return _wrap(_np.moveaxis(a, s, d))

    def __getattr__(self, name):
        if name.startswith('__'):
            raise AttributeError(name)
        f = getattr(_np, name, None)
        if f is None:
            raise AttributeError('numpy has no attribute %r' % name)
        if not callable(f) or isinstance(f, type):
            return f
        facade = self

        def fallback(*a, **k):
            for x in list(a) + list(k.values()):
                if _isq(x):
                    raise Unsupported('np.%s on a quaternion array is not modelled' % name)
            facade.fallbacks.add(name)
            r = f(*a, **k)
            if isinstance(r, _np.ndarray):
                return _wrap(r)
            if isinstance(r, tuple):
                return tuple(_wrap(x) for x in r)
            return r
        return fallback


class _NDMeta(type):
    def __instancecheck__(cls, o):
        return isinstance(o, (_np.ndarray, QArr))


class ShimNDArray(metaclass=_NDMeta):
    pass


NPFacade.ndarray = ShimNDArray
NP = NPFacade()


# ---------------------------------------------------------------------------
# scipy.sparse stand-in (dense object matrix with the CSR API the repo uses)
# ---------------------------------------------------------------------------
class SymCSR:
    """SciPy's sparse kernels are trusted, not analysed"""
    __array_ufunc__ = None

    def __init__(self, a, shape=None, dtype=None):
        if isinstance(a, SymCSR):
            a = a.a
        elif isinstance(a, tuple) and len(a) == 2 and isinstance(a[1], tuple):
            data, (rows, cols) = a
            out = robj(_shape(shape), K0)
            for d, r, c in zip(data, rows, cols):
                out[int(r), int(c)] = out[int(r), int(c)] + _liftc(d)     # duplicates are summed
            a = out
        self.a = a if isinstance(a, _np.ndarray) and a.dtype == object else to_robj(a)
        if self.a.ndim != 2:
            raise Unsupported('sparse matrix must be 2-D')

    def tocsr(self): return self
    def tocsc(self): return self
    def tocoo(self): return self
    def toarray(self): return self.a.copy().view(RArr)
    todense = toarray
    def copy(self): return SymCSR(self.a.copy())

    @property
    def shape(self): return self.a.shape

    @property
    def T(self): return self.transpose()

    @property
    def nnz(self):
        return builtins.sum(1 for v in self.a.flat if not _is0(v))

    @property
    def data(self):
        """stored entries: every entry that is not the concrete constant 0 (a symbolic entry
        is treated as stored; scipy would drop it if it happened to be exactly 0)"""
        vals = [v for v in self.a.flat if not _is0(v)]
        out = _np.empty(len(vals), dtype=object)
        for i, v in enumerate(vals):
            out[i] = v
        return out.view(RArr)

    def max(self, axis=None):
        if axis is not None:
            raise Unsupported('sparse max with axis')
        return NP.max(self.a)

    def min(self, axis=None):
        if axis is not None:
            raise Unsupported('sparse min with axis')
        return NP.min(self.a)

    def count_nonzero(self):
        return NP.count_nonzero(self.a)

    def getnnz(self):
        return self.nnz

    def astype(self, t):
        return self

    def __matmul__(self, o):
        if isinstance(o, SymCSR):
            return SymCSR(_wrap(self.a @ o.a))
        if _isq(o):
            raise Unsupported('sparse @ quaternion array')
        return _wrap(self.a @ NP._obj(NP.asarray(o)))

    def __rmatmul__(self, o):
        return _wrap(NP._obj(NP.asarray(o)) @ self.a)

    def dot(self, o): return self.__matmul__(o)

    def __add__(self, o):
        return SymCSR(self.a + (o.a if isinstance(o, SymCSR) else o))
    __radd__ = __add__

    def __sub__(self, o):
        return SymCSR(self.a - (o.a if isinstance(o, SymCSR) else o))

    def __rsub__(self, o):
        return SymCSR((o.a if isinstance(o, SymCSR) else o) - self.a)

    def __neg__(self): return SymCSR(-self.a)

    def __mul__(self, k):
        if isinstance(k, SymCSR):
            return self.__matmul__(k)          # scipy.sparse matrix semantics
        if isinstance(k, _np.ndarray):
            return self.__matmul__(k)
        return SymCSR(self.a * k)

    def __rmul__(self, k):
        return SymCSR(k * self.a)

    def __truediv__(self, k): return SymCSR(self.a / k)
    def multiply(self, o): return SymCSR(self.a * (o.a if isinstance(o, SymCSR) else o))
    def conjugate(self): return SymCSR(NP.conjugate(self.a))
    conj = conjugate
    def transpose(self): return SymCSR(self.a.T)
    def power(self, k): return SymCSR(self.a ** k)
    def sum(self, axis=None): return NP.sum(self.a, axis=axis)
    def diagonal(self): return _wrap(_np.array([self.a[i, i] for i in range(min(self.a.shape))], dtype=object))
    def __getitem__(self, idx):
        r = self.a[idx]
        return SymCSR(r) if isinstance(r, _np.ndarray) and r.ndim == 2 else r


def _issparse(x):
    return isinstance(x, SymCSR)


SPARSEMOD = types.ModuleType('scipy.sparse')
SPARSEMOD.csr_matrix = SymCSR
SPARSEMOD.csc_matrix = SymCSR
SPARSEMOD.coo_matrix = SymCSR
SPARSEMOD.issparse = _issparse
SPARSEMOD.isspmatrix = _issparse
SPARSEMOD.eye = lambda n, m=None, **k: SymCSR(NP.eye(n, m))
SPARSEMOD.identity = lambda n, **k: SymCSR(NP.eye(n))


class _ScipyLinalg(types.ModuleType):
    def __init__(self):
        super().__init__('scipy.linalg')
        self.stubs = {}

    def __getattr__(self, name):
        if name.startswith('__'):
            raise AttributeError(name)
        stubs = self.__dict__['stubs']

        def _tramp(*a, **k):
            st = stubs.get(name)
            if st is None:
                raise Unsupported('scipy.linalg.%s is compiled LAPACK code and no contract stub is installed' % name)
            return st(*a, **k)
        return _tramp


SCIPYLINALG = _ScipyLinalg()
SCIPYMOD = types.ModuleType('scipy')
SCIPYMOD.sparse = SPARSEMOD
SCIPYMOD.linalg = SCIPYLINALG


# ---------------------------------------------------------------------------
class _Math(types.ModuleType):
    pi = _math.pi
    inf = _math.inf
    e = _math.e

    def __init__(self):
        super().__init__('math')

    def sqrt(self, x):
        if isinstance(x, SR):
            return S.sqrt(x)
        return _math.sqrt(x)

    def log10(self, x):
        if isinstance(x, K):
            return _math.log10(x.v)
        if isinstance(x, SR):
            return S.opaque('log10(sym)')
        return _math.log10(x)

    def isfinite(self, x):
        if isinstance(x, K):
            return x.isfinite()
        if isinstance(x, SR):
            return True
        return _math.isfinite(x)

    def __getattr__(self, name):
        if name.startswith('__'):
            raise AttributeError(name)
        f = getattr(_math, name)
        def g(*a):
            if any(isinstance(x, SR) and not isinstance(x, K) for x in a):
                raise Unsupported('math.%s of a symbolic value' % name)
            return f(*[builtins.float(x.v) if isinstance(x, K) else x for x in a])
        return g if callable(f) else f


MATHMOD = _Math()


class _Time(types.ModuleType):
    def __init__(self):
        super().__init__('time')
        self.t = 0.0

    def time(self):
        self.t += 1.0          # arbitrary non-decreasing clock; timings are not part of any claim
        return self.t
    perf_counter = time
    process_time = time

    def sleep(self, s): return None


TIMEMOD = _Time()
