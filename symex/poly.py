"""Sparse multivariate polynomials over Q with square-root atoms.

A polynomial is a dict  monomial -> Fraction, a monomial is a sorted tuple of
(variable index, exponent) pairs.  Variables are either *inputs* (free symbolic
reals) or *atoms*: an atom `a` stands for the non-negative square root of a
polynomial `rad(a)` over earlier variables, and every product is rewritten with
a^2 -> rad(a) (so the normal form lives in Q[inputs][atoms]/(a^2 = rad(a))).

This module is a *preprocessor* for the SMT queries of symex.scalar: it never
decides anything by itself.  Exact division (used to cancel a numerator against
a denominator factor) is verified by multiplication before it is accepted.
"""
from fractions import Fraction

F0 = Fraction(0)
F1 = Fraction(1)


class Ring:
    """Variable table shared by all polynomials of one symbolic execution."""

    def __init__(self):
        self.names = []          # index -> name
        self.rel = {}            # atom index -> radicand Poly
        self.atom_by_rad = {}    # radicand key -> atom Poly
        self.sqcands = {}        # key -> Poly: candidate factors to pull out of square roots
        self._zvars = []         # index -> z3 Real (filled by scalar.Ctx)

    def var(self, name):
        self.names.append(name)
        return Poly(self, {((len(self.names) - 1, 1),): F1})

    def const(self, c):
        c = c if isinstance(c, Fraction) else Fraction(c)
        return Poly(self, {(): c} if c else {})

    @property
    def zero(self):
        return Poly(self, {})

    @property
    def one(self):
        return Poly(self, {(): F1})


def mono_mul(a, b):
    if not a:
        return b
    if not b:
        return a
    # merge two sorted tuples of (var, exp)
    out = []
    i = j = 0
    la, lb = len(a), len(b)
    while i < la and j < lb:
        va, ea = a[i]
        vb, eb = b[j]
        if va == vb:
            out.append((va, ea + eb)); i += 1; j += 1
        elif va < vb:
            out.append(a[i]); i += 1
        else:
            out.append(b[j]); j += 1
    if i < la:
        out.extend(a[i:])
    if j < lb:
        out.extend(b[j:])
    return tuple(out)


def _order(m):
    return (sum(e for _, e in m), m)


class Poly:
    __slots__ = ('R', 't', '_k')

    def __init__(self, R, t):
        self.R = R
        self.t = t
        self._k = None

    # -- predicates -------------------------------------------------------
    def iszero(self):
        return not self.t

    def isconst(self):
        return not self.t or (len(self.t) == 1 and () in self.t)

    def constval(self):
        return self.t.get((), F0)

    def key(self):
        if self._k is None:
            self._k = frozenset(self.t.items())
        return self._k

    def equals(self, o):
        return self.t == o.t

    def vars(self):
        s = set()
        for m in self.t:
            for v, _ in m:
                s.add(v)
        return s

    def is_sos_like(self):
        """syntactic certificate of non-negativity: every monomial has only
        even exponents (on non-atom variables, or any exponent on atoms, which
        are >= 0) and a positive coefficient."""
        rel = self.R.rel
        for m, c in self.t.items():
            if c < 0:
                return False
            for v, e in m:
                if e % 2 and v not in rel:
                    return False
        return True

    def is_strictly_positive(self):
        """syntactic certificate of > 0: non-negative by is_sos_like and a positive constant term"""
        return self.t.get((), F0) > 0 and self.is_sos_like()

    # -- ring operations --------------------------------------------------
    def __add__(self, o):
        if not o.t:
            return self
        if not self.t:
            return o
        a, b = (self.t, o.t) if len(self.t) >= len(o.t) else (o.t, self.t)
        d = dict(a)
        for m, c in b.items():
            v = d.get(m)
            if v is None:
                d[m] = c
            else:
                v = v + c
                if v:
                    d[m] = v
                else:
                    del d[m]
        return Poly(self.R, d)

    def __neg__(self):
        return Poly(self.R, {m: -c for m, c in self.t.items()})

    def __sub__(self, o):
        return self + (-o)

    def scale(self, c):
        if not c:
            return Poly(self.R, {})
        if c == 1:
            return self
        return Poly(self.R, {m: k * c for m, k in self.t.items()})

    def __mul__(self, o):
        if not self.t or not o.t:
            return Poly(self.R, {})
        a, b = self.t, o.t
        if len(a) < len(b):
            a, b = b, a
        if len(b) == 1:
            (m2, c2), = b.items()
            if not m2:
                return self.scale(c2) if a is self.t else o.scale(c2)
        d = {}
        get = d.get
        for m2, c2 in b.items():
            for m1, c1 in a.items():
                m = mono_mul(m1, m2)
                v = get(m)
                if v is None:
                    d[m] = c1 * c2
                else:
                    v = v + c1 * c2
                    if v:
                        d[m] = v
                    else:
                        del d[m]
        p = Poly(self.R, d)
        return p.reduce() if self.R.rel else p

    def pow(self, k):
        r = self.R.one
        b = self
        while k:
            if k & 1:
                r = r * b
            k >>= 1
            if k:
                b = b * b
        return r

    def reduce(self):
        """rewrite atom^k (k >= 2) with atom^2 = radicand, highest atom first"""
        rel = self.R.rel
        s = self
        while True:
            hit = -1
            for m in s.t:
                for v, e in m:
                    if e >= 2 and v in rel and v > hit:
                        hit = v
            if hit < 0:
                return s
            v = hit
            rad = rel[v]
            groups = {}
            for m, c in s.t.items():
                e = 0
                rest = []
                for (w, k) in m:
                    if w == v:
                        e = k
                    else:
                        rest.append((w, k))
                groups.setdefault(e, {})[tuple(rest)] = c
            out = Poly(s.R, {})
            radpow = {}
            for e, d in groups.items():
                q, r = divmod(e, 2)
                part = Poly(s.R, d)
                if r:
                    av = ((v, 1),)
                    part = Poly(s.R, {mono_mul(m, av): c for m, c in d.items()})
                if q:
                    if q not in radpow:
                        radpow[q] = rad.pow(q)
                    part = part._mul_noreduce(radpow[q])
                out = out + part
            s = out

    def _mul_noreduce(self, o):
        if not self.t or not o.t:
            return Poly(self.R, {})
        d = {}
        for m2, c2 in o.t.items():
            for m1, c1 in self.t.items():
                m = mono_mul(m1, m2)
                v = d.get(m, F0) + c1 * c2
                if v:
                    d[m] = v
                else:
                    d.pop(m, None)
        return Poly(self.R, d)

    def lead(self):
        m = max(self.t, key=_order)
        return m, self.t[m]

    def divexact(self, o):
        """q with self == q*o as plain polynomials (no atom rewriting), or None."""
        if o.isconst():
            c = o.constval()
            return self.scale(1 / c) if c else None
        if not self.t:
            return self
        lm, lc = max(o.t.items(), key=lambda kv: _order(kv[0]))
        lmd = dict(lm)
        ldeg = sum(e for _, e in lm)
        rem = dict(self.t)
        q = {}
        steps = 0
        while rem:
            m = max(rem, key=_order)
            c = rem[m]
            md = dict(m)
            if sum(md.values()) < ldeg:
                return None
            for v, e in lm:
                if md.get(v, 0) < e:
                    return None
            qm = tuple(sorted((v, md[v] - lmd.get(v, 0)) for v in md if md[v] - lmd.get(v, 0) > 0))
            qc = c / lc
            q[qm] = q.get(qm, F0) + qc
            for m2, c2 in o.t.items():
                mm = mono_mul(qm, m2)
                v = rem.get(mm, F0) - qc * c2
                if v:
                    rem[mm] = v
                else:
                    rem.pop(mm, None)
            steps += 1
            if steps > 200000:
                return None
        return Poly(self.R, q)

    def content_split(self):
        """(c, p) with self = c*p and p's leading coefficient 1"""
        m, c = self.lead()
        return c, self.scale(1 / c)

    # -- evaluation -------------------------------------------------------
    def eval(self, vals):
        """vals: index -> number (Fraction or float)"""
        tot = 0
        for m, c in self.t.items():
            t = c
            for v, e in m:
                t = t * vals[v] ** e
            tot = tot + t
        return tot

    def to_z3(self):
        import z3
        zv = self.R._zvars
        if not self.t:
            return z3.RealVal(0)
        terms = []
        for m, c in self.t.items():
            fs = []
            for v, e in m:
                x = zv[v]
                for _ in range(e):
                    fs.append(x)
            if not fs:
                terms.append(z3.RealVal(str(c)))
                continue
            t = fs[0]
            for f in fs[1:]:
                t = t * f
            if c != 1:
                t = z3.RealVal(str(c)) * t
            terms.append(t)
        return z3.Sum(terms) if len(terms) > 1 else terms[0]

    def __repr__(self):
        if not self.t:
            return '0'
        names = self.R.names
        items = sorted(self.t.items(), key=lambda kv: _order(kv[0]))[:10]
        s = ' + '.join(
            (str(c) if not m else (('' if c == 1 else str(c) + '*') +
                                   '*'.join(names[v] + ('^%d' % e if e > 1 else '') for v, e in m)))
            for m, c in items)
        return s + (' + ...(%d terms)' % len(self.t) if len(self.t) > 10 else '')
