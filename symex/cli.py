import importlib
import os
import sys

sys.set_int_max_str_digits(0)

VERIF = os.path.dirname(os.path.dirname(os.path.abspath(__file__)))
sys.path.insert(0, VERIF)


def main(argv):
    if len(argv) >= 2 and argv[0] == 'replay':
        from symex import runner
        return runner.replay_file(argv[1])
    if len(argv) < 1:
        print('usage: run <C01..C20> [quick|thorough] | run replay <file>')
        return 2
    prop = argv[0].upper()
    tier = argv[1] if len(argv) > 1 else os.environ.get('VERIF_TIER', 'quick')
    only = argv[2] if len(argv) > 2 else None
    from symex import runner
    mod = importlib.import_module('props.' + prop.lower())
    cells = mod.cells()
    if only:
        import re
        cells = [c for c in cells if re.search(only, c.name)]
        for c in cells:
            c.tier = 'quick'
    jobs = int(os.environ.get('VERIF_JOBS', '0') or 0) or None
    return runner.main_property(prop, tier, cells, getattr(mod, 'META', {}), jobs=jobs)


if __name__ == '__main__':
    sys.exit(main(sys.argv[1:]))
