"""Dual-mode harness environment.

A *cell* is a python function  cell(env, **params)  that builds inputs through
`env`, calls the repository's functions through `env.R`, and states the
property's clauses through env.eq / env.zero / env.holds / env.le.

* SymEnv: inputs are symbolic, `env.R` is the repository source executed
  against the shims, every clause becomes an SMT query  path /\\ not clause
  decided by z3 (unsat = discharged for every input on that path).
* ConcEnv: inputs are floats taken from a z3 model, `env.R` is the real
  library (real NumPy / numpy-quaternion / LAPACK); clauses are evaluated
  numerically with a stated tolerance.  Used to replay counterexamples and to
  validate the encoding at one witness point per path.
"""
import math
import time
from fractions import Fraction

import numpy as np
import z3

from . import scalar as S
from . import shim, loader
from .scalar import SR, K, SC, SymBool, lift


class Counterexample(Exception):
    pass


def _flat_scalars(x):
    """flatten scalars / arrays / quaternion arrays into a list of real scalars"""
    if isinstance(x, shim.QArr):
        return list(x.F.flat)
    if isinstance(x, shim.SymQuat):
        return [x.w, x.x, x.y, x.z]
    if isinstance(x, SC):
        return [x.re, x.im]
    if isinstance(x, np.ndarray):
        if x.dtype == np.dtype(np.quaternion):
            import quaternion
            return list(quaternion.as_float_array(x).flat)
        out = []
        for v in x.flat:
            out.extend(_flat_scalars(v))
        return out
    if isinstance(x, (list, tuple)):
        out = []
        for v in x:
            out.extend(_flat_scalars(v))
        return out
    if type(x).__name__ == 'quaternion':
        return [x.w, x.x, x.y, x.z]
    if isinstance(x, (complex, np.complexfloating)):
        return [x.real, x.imag]
    if hasattr(x, 'toarray'):
        return _flat_scalars(x.toarray())
    return [x]


def _shape_of(x):
    if isinstance(x, (shim.QArr, np.ndarray)):
        return tuple(x.shape)
    if isinstance(x, (list, tuple)):
        return ('seq', len(x))
    return ()


class BaseEnv:
    symbolic = False
    twin = False

    def __init__(self):
        self.log = []             # (obligation name, status, detail)
        self.observations = []    # (name, list of scalars)
        self.notes = []

    def note(self, s):
        self.notes.append(s)


# ---------------------------------------------------------------------------
class SymEnv(BaseEnv):
    symbolic = True

    def __init__(self, twin=False, ob_timeout_ms=20000, stop_on_cex=True, domain='a'):
        super().__init__()
        self.twin = twin
        self.domain = domain
        self.R = loader.repo()
        self.np = shim.NP
        self.quaternion = shim.QUATMOD
        self.ob_timeout_ms = ob_timeout_ms
        self.stop_on_cex = stop_on_cex
        self.cex = []             # (obligation name, model dict)
        self.n_ob = 0
        self.n_ok = 0
        self.n_unknown = 0
        self.n_trivial = 0
        self._twisted = False

    # -- inputs ---------------------------------------------------------------
    def real(self, name):
        return S.var(name)

    def rarr(self, name, shape):
        return S.arr(name, tuple(shape)).view(shim.RArr)

    def symint(self, name, default=0):
        return S.SymInt(name)

    def symstr(self, name, default=''):
        return S.SymStr(name)

    def quat(self, name, kind='full'):
        c = self._qc(name, kind)
        return shim.SymQuat(*c)

    def _qc(self, name, kind):
        z = shim.K0
        if kind == 'full':
            return [S.var('%s_%s' % (name, c)) for c in 'wxyz']
        if kind == 'real':
            return [S.var(name + '_w'), z, z, z]
        if kind == 'complex':
            return [S.var(name + '_w'), S.var(name + '_x'), z, z]
        if kind == 'pure':
            return [z, S.var(name + '_x'), S.var(name + '_y'), S.var(name + '_z')]
        if kind == 'zero':
            return [z, z, z, z]
        raise ValueError(kind)

    def qarr(self, name, shape, kind='full'):
        shape = tuple(shape)
        F = np.empty(shape + (4,), dtype=object)
        for idx in np.ndindex(*shape):
            k = kind(idx) if callable(kind) else kind
            c = self._qc(name + '_' + '_'.join(map(str, idx)), k)
            for t in range(4):
                F[idx + (t,)] = c[t]
        return shim.QArr(F)

    def qherm(self, name, n, kind='full'):
        """Hermitian n x n: real diagonal, A[j,i] = conj(A[i,j])"""
        A = shim.qzeros((n, n))
        for i in range(n):
            A[i, i] = shim.SymQuat(S.var('%s_%d_%d_w' % (name, i, i)), 0, 0, 0)
            for j in range(i + 1, n):
                k = kind((i, j)) if callable(kind) else kind
                q = shim.SymQuat(*self._qc('%s_%d_%d' % (name, i, j), k))
                A[i, j] = q
                A[j, i] = q.conjugate()
        return A

    def qconst(self, vals):
        """concrete quaternion array from nested lists of 4-tuples / numbers"""
        return shim.NP.array(_to_symq(vals), dtype=np.quaternion)

    def rconst(self, vals):
        return shim.to_robj(np.array(vals, dtype=object))

    def qzeros(self, shape):
        return shim.qzeros(tuple(shape))

    def rconst_obj(self, lists):
        """nested lists of (symbolic) scalars -> real array"""
        return shim.to_robj(np.array(lists, dtype=object))

    def q(self, w=0, x=0, y=0, z=0):
        return shim.SymQuat(w, x, y, z)

    def sparse(self, A):
        F = A.F
        comps = [shim.SymCSR(F[..., c].copy().view(shim.RArr)) for c in range(4)]
        return self.R.utils.SparseQuaternionMatrix(comps[0], comps[1], comps[2], comps[3], A.shape)

    def csr(self, a):
        return shim.SymCSR(a)

    def twist(self, x):
        """identity, except in the negative twin where the implementation is fed
        a perturbed copy of x (so the clause must then be refutable)"""
        if not self.twin or self._twisted:
            return x
        self._twisted = True
        if isinstance(x, shim.QArr):
            y = x.copy()
            f = y.F.reshape(-1)
            for i in range(f.size):
                if not (isinstance(f[i], K)):
                    f[i] = f[i] + 1
                    return y
            f[0] = f[0] + 1
            return y
        if isinstance(x, np.ndarray):
            y = x.copy()
            for i in range(y.size):
                if not isinstance(lift(y.flat[i]), K):
                    y.flat[i] = y.flat[i] + 1
                    return y
            y.flat[0] = y.flat[0] + 1
            return y
        if isinstance(x, shim.SymQuat):
            return shim.SymQuat(x.w + 1, x.x, x.y, x.z)
        return x + 1

    # -- assumptions ------------------------------------------------------------
    def assume(self, cond, label=''):
        S.assume(cond, label)

    def stub_linalg(self, name, fn):
        shim.NP.linalg.stubs[name] = fn

    def stub_scipy_linalg(self, name, fn):
        shim.SCIPYLINALG.__dict__['stubs'][name] = fn

    # -- obligations -------------------------------------------------------------
    def _query(self, name, negated, trivially_true=False):
        """negated: z3 BoolRef (or python bool) that is satisfiable iff the clause fails"""
        c = S.ctx()
        self.n_ob += 1
        if isinstance(negated, bool):
            if not negated:
                self.n_ok += 1
                self.n_trivial += 1
                self.log.append((name, 'discharged-syntactic', ''))
                return True
            negated = z3.BoolVal(True)
        r, m = c.check(negated, timeout_ms=self.ob_timeout_ms)
        if r == 'unsat':
            self.n_ok += 1
            self.log.append((name, 'discharged', ''))
            return True
        if r == 'unknown':
            self.n_unknown += 1
            self.log.append((name, 'unknown', ''))
            return None
        vals = {}
        for nm, zv in c.zvar_by_name.items():
            vals[nm] = S.model_value(m, zv)
        self.cex.append((name, vals))
        self.log.append((name, 'sat', ''))
        if self.stop_on_cex:
            raise Counterexample(name)
        return False

    def _pairs(self, a, b):
        if _shape_of(a) != _shape_of(b):
            # shape mismatch is itself a (concrete) failure of an equality clause
            return None
        fa, fb = _flat_scalars(a), _flat_scalars(b)
        if len(fa) != len(fb):
            return None
        return list(zip(fa, fb))

    def eq(self, name, a, b, tol=None):
        """clause: a == b exactly (entry-wise), for every input on this path"""
        pairs = self._pairs(a, b)
        if pairs is None:
            self.n_ob += 1
            c = S.ctx()
            vals = {}
            r, m = c.check()
            if r == 'sat':
                for nm, zv in c.zvar_by_name.items():
                    vals[nm] = S.model_value(m, zv)
            self.cex.append((name + ' [shape %s vs %s]' % (_shape_of(a), _shape_of(b)), vals))
            self.log.append((name, 'sat', 'shape mismatch'))
            if self.stop_on_cex:
                raise Counterexample(name)
            return False
        diffs = []
        if S.ctx().domain == 'f':
            # bit-for-bit: SMT-LIB `=` on the FloatingPoint sort (identity of bit patterns up to NaN payload)
            for u, v in pairs:
                a1, b1 = S.to_z3(u), S.to_z3(v)
                if a1.eq(b1):
                    continue
                diffs.append(z3.Not(a1 == b1))
            if not diffs:
                return self._query(name, False)
            return self._query(name, z3.Or(*diffs) if len(diffs) > 1 else diffs[0])
        for u, v in pairs:
            d = lift(u) - lift(v) if not isinstance(u, SymBool) else None
            if isinstance(d, K):
                if d.v != 0:
                    return self._query(name, True)
                continue
            t = S.eq0_term(d)
            if z3.is_rational_value(t) or z3.is_int_value(t):
                if t.as_fraction() != 0:
                    return self._query(name, True)
                continue
            diffs.append(t != 0)
        if not diffs:
            return self._query(name, False)
        return self._query(name, z3.Or(*diffs) if len(diffs) > 1 else diffs[0])

    def zero(self, name, a, tol=None):
        fa = _flat_scalars(a)
        return self.eq(name, fa, [0] * len(fa))

    def holds(self, name, cond):
        if isinstance(cond, SymBool):
            return self._query(name, z3.Not(cond.e))
        return self._query(name, not bool(cond))

    def le(self, name, a, b, slack=0.0, abs_slack=0.0):
        """clause: a <= b"""
        r = lift(a) <= lift(b)
        return self.holds(name, r)

    def is_max(self, name, res, vals):
        """clause: res = max(vals)"""
        ge = S.sb_and([lift(res) >= lift(v) for v in vals])
        eq = S.sb_or([lift(res) == lift(v) for v in vals])
        return self.holds(name, S.sb_and([ge, eq]))

    def raises(self, name, fn, exc_types=(Exception,)):
        """clause: fn() raises (on this path).  Returns the exception or None"""
        try:
            fn()
        except S.SteerException:
            raise
        except exc_types as e:
            self._query(name, False)
            return e
        self._query(name, True)
        return None

    def observe(self, name, value):
        self.observations.append((name, value))

    def cond(self, c):
        """boolean usable in harness control flow"""
        return bool(c)

    def sqrt(self, x):
        return S.sqrt(x)


def _to_symq(v):
    if isinstance(v, (list,)):
        return [_to_symq(x) for x in v]
    if isinstance(v, tuple):
        return shim.SymQuat(*[Fraction(x) if not isinstance(x, Fraction) else x for x in v])
    return shim.SymQuat(Fraction(v), 0, 0, 0)


# ---------------------------------------------------------------------------
class ConcEnv(BaseEnv):
    """same interface on the real library with float inputs taken from `vals`"""
    symbolic = False

    def __init__(self, vals, rtol=1e-7, atol=1e-9, default=None, seed=0, exact=False):
        super().__init__()
        import quaternion
        self.exact = exact
        self.domain = 'f' if exact else 'a'
        self.vals = vals
        self.rtol, self.atol = rtol, atol
        self.R = loader.real()
        self.np = np
        self.quaternion = quaternion
        self.failures = []
        self.assume_failed = []
        self.default = default
        self.rng = np.random.default_rng(seed)
        self.used = {}

    def _v(self, name):
        if name in self.vals:
            try:
                v = float(self.vals[name])
            except OverflowError:
                v = float('inf') if self.vals[name] > 0 else float('-inf')
        elif self.default is not None:
            v = float(self.default)
        else:
            v = float(self.rng.integers(-4, 5)) / 2.0
        self.used[name] = v
        return v

    def real(self, name):
        return self._v(name)

    def symint(self, name, default=0):
        v = self.vals.get(name, default)
        self.used[name] = v
        return int(v)

    def symstr(self, name, default=''):
        v = self.vals.get(name, default)
        self.used[name] = v
        return str(v)

    def rarr(self, name, shape):
        a = np.zeros(tuple(shape))
        for idx in np.ndindex(*a.shape):
            a[idx] = self._v(name + '_' + '_'.join(map(str, idx)))
        return a

    def _qc(self, name, kind):
        if kind == 'full':
            return [self._v('%s_%s' % (name, c)) for c in 'wxyz']
        if kind == 'real':
            return [self._v(name + '_w'), 0.0, 0.0, 0.0]
        if kind == 'complex':
            return [self._v(name + '_w'), self._v(name + '_x'), 0.0, 0.0]
        if kind == 'pure':
            return [0.0, self._v(name + '_x'), self._v(name + '_y'), self._v(name + '_z')]
        if kind == 'zero':
            return [0.0] * 4
        raise ValueError(kind)

    def quat(self, name, kind='full'):
        return self.quaternion.quaternion(*self._qc(name, kind))

    def qarr(self, name, shape, kind='full'):
        shape = tuple(shape)
        F = np.zeros(shape + (4,))
        for idx in np.ndindex(*shape):
            k = kind(idx) if callable(kind) else kind
            F[idx] = self._qc(name + '_' + '_'.join(map(str, idx)), k)
        return self.quaternion.as_quat_array(F)

    def qherm(self, name, n, kind='full'):
        A = np.zeros((n, n), dtype=np.quaternion)
        for i in range(n):
            A[i, i] = self.quaternion.quaternion(self._v('%s_%d_%d_w' % (name, i, i)), 0, 0, 0)
            for j in range(i + 1, n):
                k = kind((i, j)) if callable(kind) else kind
                q = self.quaternion.quaternion(*self._qc('%s_%d_%d' % (name, i, j), k))
                A[i, j] = q
                A[j, i] = q.conjugate()
        return A

    def qconst(self, vals):
        a = np.array(_to_tuples(vals), dtype=float)
        return self.quaternion.as_quat_array(a)

    def rconst(self, vals):
        return np.array(vals, dtype=float)

    def qzeros(self, shape):
        return np.zeros(tuple(shape), dtype=np.quaternion)

    def q(self, w=0, x=0, y=0, z=0):
        return self.quaternion.quaternion(float(w), float(x), float(y), float(z))

    def sparse(self, A):
        from scipy import sparse
        F = self.quaternion.as_float_array(A)
        comps = [sparse.csr_matrix(F[..., c]) for c in range(4)]
        return self.R.utils.SparseQuaternionMatrix(comps[0], comps[1], comps[2], comps[3], A.shape)

    def csr(self, a):
        from scipy import sparse
        return sparse.csr_matrix(a)

    def twist(self, x):
        return x

    def assume(self, cond, label=''):
        if not bool(cond):
            self.assume_failed.append(label)

    def stub_linalg(self, name, fn):
        pass

    def stub_scipy_linalg(self, name, fn):
        pass

    def _fail(self, name, detail):
        self.failures.append((name, detail))
        self.log.append((name, 'FAIL', detail))

    def eq(self, name, a, b, tol=None):
        if _shape_of(a) != _shape_of(b):
            self._fail(name, 'shape %s vs %s' % (_shape_of(a), _shape_of(b)))
            return False
        fa = np.array([float(x) for x in _flat_scalars(a)], dtype=float)
        fb = np.array([float(x) for x in _flat_scalars(b)], dtype=float)
        if fa.shape != fb.shape:
            self._fail(name, 'size %s vs %s' % (fa.shape, fb.shape))
            return False
        if fa.size == 0:
            self.log.append((name, 'ok', 'empty'))
            return True
        if self.exact or tol == 0:
            ba, bb = fa.view(np.uint64), fb.view(np.uint64)
            nan = np.isnan(fa) & np.isnan(fb)
            bad = (ba != bb) & ~nan
            if np.any(bad):
                i = int(np.argmax(bad))
                self._fail(name, 'bit patterns differ at flat index %d (a=%r, b=%r)' % (i, float(fa[i]), float(fb[i])))
                return False
            self.log.append((name, 'ok', 'bit-identical'))
            return True
        rtol = tol if tol is not None else self.rtol
        scale = max(1.0, float(np.max(np.abs(fa))) if np.all(np.isfinite(fa)) else 1.0,
                    float(np.max(np.abs(fb))) if np.all(np.isfinite(fb)) else 1.0)
        with np.errstate(invalid='ignore'):
            err = np.abs(fa - fb)
        bad = ~(err <= rtol * scale + min(self.atol, rtol))
        if np.any(bad):
            i = int(np.argmax(np.where(np.isnan(err), np.inf, err)))
            self._fail(name, 'max |a-b| = %r at flat index %d (a=%r, b=%r, scale=%r)' % (
                float(err[i]), i, float(fa[i]), float(fb[i]), scale))
            return False
        self.log.append((name, 'ok', ''))
        return True

    def zero(self, name, a, tol=None):
        fa = np.array([float(x) for x in _flat_scalars(a)], dtype=float)
        return self.eq(name, fa, np.zeros_like(fa), tol)

    def holds(self, name, cond):
        if not bool(cond):
            self._fail(name, 'condition is False')
            return False
        self.log.append((name, 'ok', ''))
        return True

    def le(self, name, a, b, slack=1e-9, abs_slack=1e-12):
        a, b = float(a), float(b)
        if not (a <= b + slack * max(abs(a), abs(b)) + abs_slack):
            self._fail(name, '%r <= %r fails' % (a, b))
            return False
        self.log.append((name, 'ok', ''))
        return True

    def is_max(self, name, res, vals):
        return self.eq(name, [float(res)], [max(float(v) for v in vals)])

    def raises(self, name, fn, exc_types=(Exception,)):
        try:
            fn()
        except exc_types as e:
            self.log.append((name, 'ok', 'raised %s' % type(e).__name__))
            return e
        self._fail(name, 'no exception raised')
        return None

    def observe(self, name, value):
        self.observations.append((name, value))

    def cond(self, c):
        return bool(c)

    def sqrt(self, x):
        return math.sqrt(x) if not isinstance(x, np.ndarray) else np.sqrt(x)


def _to_tuples(v):
    if isinstance(v, list):
        return [_to_tuples(x) for x in v]
    if isinstance(v, tuple):
        return [float(x) for x in v]
    return [float(v), 0.0, 0.0, 0.0]


# ---------------------------------------------------------------------------
def eval_obs(model_vals_z3, value):
    """evaluate symbolic observation scalars under a z3 model -> list of floats"""
    out = []
    m, c = model_vals_z3
    for s in _flat_scalars(value):
        if isinstance(s, (SymBool,)):
            out.append(float(bool(z3.is_true(m.eval(s.e, model_completion=True)))))
            continue
        s = lift(s) if not isinstance(s, SR) else s
        if s is None:
            out.append(float('nan'))
            continue
        if isinstance(s, K):
            out.append(float(s.v))
            continue
        try:
            t = S.to_z3(s)
            out.append(float(S.model_value(m, t, digits=20)))
        except Exception:
            out.append(float('nan'))
    return out
