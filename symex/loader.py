"""Loads the repository's source, unmodified, from the current working tree and
executes it against the shim modules of symex.shim.

No AST rewriting and no copy of the code: the text of each file is read from
REPO at run time, compiled and exec'd in a namespace whose private
`__import__` resolves numpy / quaternion / scipy / math / time to the shims and
sibling modules to their already-loaded counterparts.  A mutated line is
executed as mutated.
"""
import ast
import builtins
import hashlib
import os
import sys
import types

from . import shim

REPO = os.environ.get('QUATICA_REPO', '/repo')

# load order matters only for top-level imports (lazy imports resolve at call time)
MODULES = [
    ('utils', 'quatica/utils.py'),
    ('decomp.tridiagonalize', 'quatica/decomp/tridiagonalize.py'),
    ('decomp.hessenberg', 'quatica/decomp/hessenberg.py'),
    ('decomp.LU', 'quatica/decomp/LU.py'),
    ('decomp.qsvd', 'quatica/decomp/qsvd.py'),
    ('decomp.eigen', 'quatica/decomp/eigen.py'),
    ('decomp.schur', 'quatica/decomp/schur.py'),
    ('decomp', 'quatica/decomp/__init__.py'),
    ('data_gen', 'quatica/data_gen.py'),
    ('solver', 'quatica/solver.py'),
    ('tensor', 'quatica/tensor.py'),
    ('qslst', 'quatica/qslst.py'),
]
DEBLUR = 'applications/image_deblurring/script_image_deblurring.py'
DEBLUR_FUNCS = ('_build_bccb_matrix', '_build_bccb_csr')

_TOOL = 3
_entered = set()
_mon_ready = False


def _mon_cb(code, offset):
    _entered.add((code.co_filename, code.co_qualname))
    return sys.monitoring.DISABLE


def _monitor(code):
    global _mon_ready
    mon = sys.monitoring
    if not _mon_ready:
        try:
            mon.use_tool_id(_TOOL, 'symex')
        except ValueError:
            pass
        mon.register_callback(_TOOL, mon.events.PY_START, _mon_cb)
        _mon_ready = True
    stack = [code]
    while stack:
        c = stack.pop()
        mon.set_local_events(_TOOL, c, mon.events.PY_START)
        for k in c.co_consts:
            if isinstance(k, types.CodeType):
                stack.append(k)


def entered_functions():
    return sorted('%s:%s' % (os.path.relpath(f, REPO), q) for f, q in _entered if q != '<module>')


def reset_entered():
    _entered.clear()
    if _mon_ready:
        sys.monitoring.restart_events()


class _FakeSys(types.ModuleType):
    def __init__(self):
        super().__init__('sys')
        self.path = []
        self.modules = {}

    def __getattr__(self, name):
        return getattr(sys, name)


class Repo:
    def __init__(self, root=None):
        self.root = root or REPO
        self.mods = {}
        self.files = {}
        self._fakesys = _FakeSys()
        self._builtins = dict(vars(builtins))
        self._builtins.update({
            '__import__': self._import,
            'float': shim.ShimFloat,
            'complex': shim.ShimComplex,
            'int': shim.ShimInt,
            'print': shim.shim_print,
            'round': shim.shim_round,
            'sum': shim.shim_sum,
        })
        for name, rel in MODULES:
            self._load(name, rel)
        self._load_deblur()

    # -- import resolution --------------------------------------------------
    _EXT = {
        'numpy': lambda fl: shim.NP,
        'numpy.fft': lambda fl: shim.NP.fft if fl else shim.NP,
        'numpy.linalg': lambda fl: shim.NP.linalg if fl else shim.NP,
        'quaternion': lambda fl: shim.QUATMOD,
        'scipy': lambda fl: shim.SCIPYMOD,
        'scipy.sparse': lambda fl: shim.SPARSEMOD if fl else shim.SCIPYMOD,
        'scipy.linalg': lambda fl: shim.SCIPYLINALG if fl else shim.SCIPYMOD,
        'math': lambda fl: shim.MATHMOD,
        'time': lambda fl: shim.TIMEMOD,
    }

    def _import(self, name, globals=None, locals=None, fromlist=(), level=0):
        if level == 0 and name in self._EXT:
            return self._EXT[name](fromlist)
        if level == 0 and name == 'sys':
            return self._fakesys
        key = name
        if key.startswith('quatica.'):
            key = key[len('quatica.'):]
        elif key == 'quatica':
            raise ImportError('package-style import of quatica is not modelled')
        cands = [key]
        if level > 0 and globals is not None:
            pkg = globals.get('__package__') or ''
            if pkg:
                cands.insert(0, (pkg + '.' + key) if key else pkg)
        cands.append('decomp.' + key)
        for k in cands:
            if k in self.mods:
                m = self.mods[k]
                if not fromlist and '.' in key and k == key and level == 0:
                    return self.mods[k.split('.')[0]]
                return m
        if level > 0:
            raise ImportError('relative import of %r is not modelled' % name)
        if key in ('utils', 'decomp', 'data_gen', 'solver', 'tensor', 'qslst') or key.startswith('decomp.'):
            raise ImportError('module %r is not loaded yet' % name)
        return builtins.__import__(name, globals, locals, fromlist, level)

    def _load(self, name, rel):
        path = os.path.join(self.root, rel)
        with open(path, 'rb') as f:
            raw = f.read()
        self.files[rel] = hashlib.sha256(raw).hexdigest()
        code = compile(raw.decode('utf-8'), path, 'exec')
        _monitor(code)
        m = types.ModuleType(name)
        m.__file__ = path
        m.__package__ = name if rel.endswith('__init__.py') else name.rpartition('.')[0]
        m.__dict__['__builtins__'] = self._builtins
        self.mods[name] = m
        exec(code, m.__dict__)
        if '.' in name:
            pkg, _, leaf = name.rpartition('.')
            setattr(self, leaf, m)
        else:
            setattr(self, name, m)
        return m

    def _load_deblur(self):
        """only the two matrix builders of the deblurring script are encoded (the
        script's top level needs matplotlib/skimage and runs experiments); their
        source segments are taken verbatim from the current file."""
        path = os.path.join(self.root, DEBLUR)
        with open(path, 'rb') as f:
            raw = f.read()
        self.files[DEBLUR] = hashlib.sha256(raw).hexdigest()
        src = raw.decode('utf-8')
        tree = ast.parse(src)
        segs = []
        for node in tree.body:
            if isinstance(node, ast.FunctionDef) and node.name in DEBLUR_FUNCS:
                seg = '\n' * (node.lineno - 1) + ast.get_source_segment(src, node)
                segs.append(seg)
        m = types.ModuleType('script_image_deblurring')
        m.__file__ = path
        m.__dict__['__builtins__'] = self._builtins
        m.np = shim.NP
        m._sp = shim.SPARSEMOD
        for seg in segs:
            code = compile(seg, path, 'exec')
            _monitor(code)
            exec(code, m.__dict__)
        self.deblur = m
        self.mods['script_image_deblurring'] = m


_REPO = None


def repo():
    global _REPO
    if _REPO is None:
        _REPO = Repo()
    return _REPO


# ---------------------------------------------------------------------------
# the real library, for replaying counterexamples (flat-module import style,
# as used by the repository's own tests)
# ---------------------------------------------------------------------------
_REAL = None


def real():
    """namespace with the real modules imported from REPO (real numpy, real LAPACK)"""
    global _REAL
    if _REAL is None:
        import importlib
        p = os.path.join(REPO, 'quatica')
        if p not in sys.path:
            sys.path.insert(0, p)
        ns = types.SimpleNamespace()
        ns.utils = importlib.import_module('utils')
        ns.solver = importlib.import_module('solver')
        ns.decomp = importlib.import_module('decomp')
        ns.LU = importlib.import_module('decomp.LU')
        ns.tridiagonalize = importlib.import_module('decomp.tridiagonalize')
        ns.hessenberg = importlib.import_module('decomp.hessenberg')
        ns.qsvd = importlib.import_module('decomp.qsvd')
        ns.eigen = importlib.import_module('decomp.eigen')
        ns.schur = importlib.import_module('decomp.schur')
        ns.data_gen = importlib.import_module('data_gen')
        ns.tensor = importlib.import_module('tensor')
        ns.qslst = importlib.import_module('qslst')
        # the two builders of the deblurring script, exec'd against real numpy/scipy
        import numpy as np
        import scipy.sparse as sp
        path = os.path.join(REPO, DEBLUR)
        src = open(path, encoding='utf-8').read()
        tree = ast.parse(src)
        g = {'np': np, '_sp': sp}
        for node in tree.body:
            if isinstance(node, ast.FunctionDef) and node.name in DEBLUR_FUNCS:
                exec(compile('\n' * (node.lineno - 1) + ast.get_source_segment(src, node), path, 'exec'), g)
        ns.deblur = types.SimpleNamespace(**{k: g[k] for k in DEBLUR_FUNCS if k in g})
        _REAL = ns
    return _REAL
