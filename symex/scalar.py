"""Symbolic scalars, path conditions and the path explorer.

Two scalar domains (see DESIGN.md section 1):

* domain 'z' (class ZR): a raw z3 Real term; z3 does all the algebra.  Used for
  every clause that is polynomial in the inputs.
* domain 'a' (class AR): numerator / product of factored denominators, all in
  the polynomial normal form of symex.poly with lazily created square-root
  atoms.  The normaliser only prepares the query; every branch decision and
  every obligation is still decided by z3.

Floats are modelled as exact reals.  Concrete numbers are folded with
fractions.Fraction (class K).
"""
import math
import numbers
import time
from fractions import Fraction

import numpy as _np
import z3

from .poly import Ring, Poly, F0, F1


# ---------------------------------------------------------------------------
# exceptions that steer the explorer (BaseException: not caught by the code
# under analysis, which uses `except Exception` in several places)
# ---------------------------------------------------------------------------
class SteerException(BaseException):
    pass


class Infeasible(SteerException):
    """the current path condition became unsatisfiable (after an assume)"""


class DivByZeroEvent(SteerException):
    """a division whose divisor can be zero on this path (numpy: inf/nan)"""


class DomainEvent(SteerException):
    """sqrt of a possibly negative value, opaque function needed, ..."""


class Unsupported(SteerException):
    """the shim does not model this operation: the run is inconclusive"""


class Budget(SteerException):
    """path / time budget exhausted"""


# ---------------------------------------------------------------------------
class Ctx:
    def __init__(self, domain='a', timeout_ms=5000, decisions=None, deadline=None):
        self.domain = domain
        self.R = Ring()
        self.timeout_ms = timeout_ms
        self.solver = z3.Solver()
        self.solver.set('timeout', timeout_ms)
        self.path = []            # z3 BoolRefs: assumptions + decisions + atom relations
        self.pathvars = []        # names of the variables of each path constraint
        self.quick_hits = 0
        self.assumptions = []     # (label, z3 expr)
        self.decisions = list(decisions or [])
        self.pos = 0
        self.work = []            # alternative decision prefixes found on this path
        self.facts = {}
        self._keep = []
        self.queries = 0
        self.solver_s = 0.0
        self.unknowns = 0
        self.forks = 0
        self.natoms = 0
        self.nfresh = 0
        self.inputs = []          # (name, z3 var) of free inputs, in creation order
        self.zvar_by_name = {}
        self.opaque = []          # names of opaque symbols introduced
        self.notes = []
        self.deadline = deadline
        self.defs = {}            # fresh var name -> ('max'|'min', [SR,...]) for evaluation

    # -- variables ----------------------------------------------------------
    def newvar(self, name, kind='input'):
        if self.domain == 'f':
            zv = z3.FP(name, z3.Float64())
            self.zvar_by_name[name] = zv
            if kind == 'input':
                self.inputs.append((name, zv))
            return FR(zv)
        zv = z3.Real(name)
        self.zvar_by_name[name] = zv
        if kind == 'input':
            self.inputs.append((name, zv))
        p = self.R.var(name)
        self.R._zvars.append(zv)
        if self.domain == 'z':
            return ZR(zv)
        return AR(p)

    def add(self, e):
        self.solver.add(e)
        self.path.append(e)
        self.pathvars.append(_zvars(e))

    def quick_unsat(self, e, timeout_ms=800):
        """cheap sufficient test for infeasibility of (path and e): only the path facts whose
        variables all occur in e (e.g. atom >= 0, input assumptions) are used.  unsat of a
        subset of the constraints implies unsat of all of them."""
        ve = _zvars(e)
        sub = [c for c, vs in zip(self.path, self.pathvars) if vs and vs <= ve]
        if not sub and not ve:
            return False
        self.queries += 1
        t0 = time.time()
        s = z3.Solver()
        s.set('timeout', timeout_ms)
        s.add(*sub)
        s.add(e)
        r = _guarded_check(s, timeout_ms / 1000.0)
        self.solver_s += time.time() - t0
        if r == 'unsat':
            self.quick_hits += 1
        return r == 'unsat'

    # -- solving ------------------------------------------------------------
    def check(self, *extra, timeout_ms=None):
        """satisfiability of path /\\ extra -> ('sat'|'unsat'|'unknown', model|None)"""
        if self.deadline is not None and time.time() > self.deadline:
            raise Budget('deadline')
        self.queries += 1
        t0 = time.time()
        s = self.solver
        lim = (timeout_ms or self.timeout_ms) / 1000.0
        s.push()
        try:
            for e in extra:
                s.add(e)
            if timeout_ms is not None:
                s.set('timeout', timeout_ms)
            r = _guarded_check(s, lim)
            m = s.model() if r == 'sat' else None
        finally:
            s.pop()
            if timeout_ms is not None:
                s.set('timeout', self.timeout_ms)
        if r == 'unknown':
            # second opinion: fresh non-incremental solver (nlsat for QF_NRA)
            s2 = z3.Solver()
            s2.set('timeout', timeout_ms or self.timeout_ms)
            s2.add(*self.path)
            s2.add(*extra)
            r = _guarded_check(s2, lim)
            m = s2.model() if r == 'sat' else None
        self.solver_s += time.time() - t0
        if r == 'unknown':
            self.unknowns += 1
        return r, m

    def feasible(self, e):
        return self.check(e)[0]


def _guarded_check(solver, limit_s):
    """solver.check() with a watchdog: z3's own timeout is not always honoured inside long
    non-linear real-arithmetic steps, so the context is interrupted from a timer thread"""
    import threading
    t = threading.Timer(limit_s * 1.5 + 2.0, z3.main_ctx().interrupt)
    t.daemon = True
    t.start()
    try:
        r = str(solver.check())
    except z3.Z3Exception:
        r = 'unknown'
    finally:
        t.cancel()
    return r


def _zvars(e):
    """set of names of the uninterpreted constants of a z3 expression"""
    out = set()
    seen = set()
    stack = [e]
    while stack:
        t = stack.pop()
        i = t.get_id()
        if i in seen:
            continue
        seen.add(i)
        if z3.is_const(t):
            if t.decl().kind() == z3.Z3_OP_UNINTERPRETED:
                out.add(t.decl().name())
        else:
            stack.extend(t.children())
    return frozenset(out)


CTX = None


def ctx():
    return CTX


def set_ctx(c):
    global CTX
    CTX = c


# ---------------------------------------------------------------------------
def branch(e):
    """decide a symbolic condition on the current path (forking if both sides
    are feasible)"""
    c = CTX
    if isinstance(e, bool):
        return e
    e = z3.simplify(e)
    if z3.is_true(e):
        return True
    if z3.is_false(e):
        return False
    k = e.get_id()
    if k in c.facts:
        return c.facts[k]
    if c.pos < len(c.decisions):
        d = c.decisions[c.pos]
    else:
        ne0 = z3.Not(e)
        if c.quick_unsat(e):
            d = False              # (the path condition itself is satisfiable by construction)
        elif c.quick_unsat(ne0):
            d = True
        else:
            t = c.feasible(e)
            if t == 'unsat':
                d = False
            else:
                f = c.feasible(ne0)
                if f == 'unsat':
                    d = True
                else:
                    c.work.append(c.decisions[:c.pos] + [False])
                    c.forks += 1
                    d = True
        c.decisions.append(d)
    c.pos += 1
    ne = z3.simplify(z3.Not(e))
    c.add(e if d else ne)
    c.facts[k] = d
    c.facts[ne.get_id()] = not d
    c._keep.append(e)
    c._keep.append(ne)
    return d


def assume(cond, label=''):
    """constrain the inputs (harness side).  Recorded in the evidence."""
    c = CTX
    e = cond.e if isinstance(cond, SymBool) else cond
    if isinstance(e, bool):
        if not e:
            raise Infeasible(label)
        return
    c.assumptions.append((label, e))
    c.add(e)
    e2 = z3.simplify(e)
    c.facts[e2.get_id()] = True
    c._keep.append(e2)


class SymBool:
    __slots__ = ('e',)

    def __init__(self, e):
        self.e = e

    def __bool__(self):
        return branch(self.e)

    def __and__(self, o):
        return SymBool(z3.And(self.e, _be(o)))
    __rand__ = __and__

    def __or__(self, o):
        return SymBool(z3.Or(self.e, _be(o)))
    __ror__ = __or__

    def __invert__(self):
        return SymBool(z3.Not(self.e))

    def __repr__(self):
        return 'SymBool(%s)' % (str(self.e)[:80],)


def _be(o):
    if isinstance(o, SymBool):
        return o.e
    if isinstance(o, (bool, _np.bool_)):
        return z3.BoolVal(bool(o))
    return o


def sb_and(items):
    es = []
    for x in items:
        if isinstance(x, SymBool):
            es.append(x.e)
        elif not bool(x):
            return False
    if not es:
        return True
    return SymBool(z3.And(*es) if len(es) > 1 else es[0])


def sb_or(items):
    es = []
    for x in items:
        if isinstance(x, SymBool):
            es.append(x.e)
        elif bool(x):
            return True
    if not es:
        return False
    return SymBool(z3.Or(*es) if len(es) > 1 else es[0])


def sb_not(x):
    if isinstance(x, SymBool):
        return SymBool(z3.Not(x.e))
    return not bool(x)


# ---------------------------------------------------------------------------
INF = float('inf')


def _isq(v):
    v = Fraction(v)
    if v < 0:
        return None
    rn, rd = math.isqrt(v.numerator), math.isqrt(v.denominator)
    if rn * rn == v.numerator and rd * rd == v.denominator:
        return Fraction(rn, rd)
    return None


def lift(v):
    """python / numpy number -> SR ; returns None if v is not a real number"""
    if isinstance(v, SR):
        return v
    if isinstance(v, (bool, _np.bool_)):
        return K(Fraction(int(v)))
    if isinstance(v, (int, _np.integer)):
        return K(Fraction(int(v)))
    if isinstance(v, Fraction):
        return K(v)
    if isinstance(v, (float, _np.floating)):
        v = float(v)
        if v != v or v in (INF, -INF):
            return K(v)
        return K(Fraction(v))
    return None


class SR(numbers.Real):
    """base class of symbolic reals; subclasses K (concrete), ZR, AR, LazySqrt"""
    __slots__ = ()
    __hash__ = None

    # numbers.Real protocol that makes no sense symbolically
    def __trunc__(self): raise Unsupported('trunc of symbolic value')
    def __floor__(self): raise Unsupported('floor of symbolic value')
    def __ceil__(self): raise Unsupported('ceil of symbolic value')
    def __round__(self, n=None): raise Unsupported('round of symbolic value')
    def __floordiv__(self, o): raise Unsupported('floordiv of symbolic value')
    def __rfloordiv__(self, o): raise Unsupported('floordiv of symbolic value')
    def __mod__(self, o): raise Unsupported('mod of symbolic value')
    def __rmod__(self, o): raise Unsupported('mod of symbolic value')
    def __float__(self): raise Unsupported('float() realisation of a symbolic value')
    def __int__(self): raise Unsupported('int() realisation of a symbolic value')
    def __index__(self): raise Unsupported('index realisation of a symbolic value')
    def __format__(self, spec): return '<sym>'
    def __pos__(self): return self
    def conjugate(self): return self
    conj = conjugate

    @property
    def real(self): return self

    @property
    def imag(self): return K(F0)

    def isconst(self): return False

    def __add__(self, o):
        b = lift(o)
        if b is None:
            if isinstance(o, (complex, _np.complexfloating, SC)): return SC.of(self) + o
            return NotImplemented
        return _add(self, b)

    def __radd__(self, o):
        b = lift(o)
        if b is None:
            if isinstance(o, (complex, _np.complexfloating, SC)): return SC.of(o) + SC.of(self)
            return NotImplemented
        return _add(b, self)

    def __sub__(self, o):
        b = lift(o)
        if b is None:
            if isinstance(o, (complex, _np.complexfloating, SC)): return SC.of(self) - o
            return NotImplemented
        return _add(self, -b)

    def __rsub__(self, o):
        b = lift(o)
        if b is None:
            if isinstance(o, (complex, _np.complexfloating, SC)): return SC.of(o) - SC.of(self)
            return NotImplemented
        return _add(b, -self)

    def __mul__(self, o):
        b = lift(o)
        if b is None:
            if isinstance(o, (complex, _np.complexfloating, SC)): return SC.of(self) * o
            return NotImplemented
        return _mul(self, b)

    def __rmul__(self, o):
        b = lift(o)
        if b is None:
            if isinstance(o, (complex, _np.complexfloating, SC)): return SC.of(o) * SC.of(self)
            return NotImplemented
        return _mul(b, self)

    def __truediv__(self, o):
        b = lift(o)
        if b is None:
            if isinstance(o, (complex, _np.complexfloating, SC)): return SC.of(self) / o
            return NotImplemented
        return _div(self, b)

    def __rtruediv__(self, o):
        b = lift(o)
        if b is None:
            if isinstance(o, (complex, _np.complexfloating, SC)): return SC.of(o) / SC.of(self)
            return NotImplemented
        return _div(b, self)

    def __pow__(self, k):
        if isinstance(k, SR) and k.isconst():
            k = k.v
        if isinstance(k, (float, _np.floating)) and float(k) == int(k):
            k = int(k)
        if isinstance(k, Fraction) and k.denominator == 1:
            k = int(k)
        if isinstance(k, (int, _np.integer)):
            k = int(k)
            if k < 0:
                return _div(K(F1), self ** (-k))
            r = K(F1)
            b = self
            while k:
                if k & 1:
                    r = _mul(r, b)
                k >>= 1
                if k:
                    b = _mul(b, b)
            return r
        if k == 0.5 or k == Fraction(1, 2):
            return sqrt(self)
        raise Unsupported('non-integer power %r of a symbolic value' % (k,))

    def __rpow__(self, o):
        raise Unsupported('symbolic exponent')

    def __lt__(self, o): return _cmp(self, o, '<')
    def __le__(self, o): return _cmp(self, o, '<=')
    def __gt__(self, o): return _cmp(self, o, '>')
    def __ge__(self, o): return _cmp(self, o, '>=')
    def __eq__(self, o): return _cmp(self, o, '==')
    def __ne__(self, o): return _cmp(self, o, '!=')

    def __bool__(self):
        r = _cmp(self, K(F0), '!=')
        return bool(r)


class K(SR):
    """concrete rational (or +-inf / nan as python float)"""
    __slots__ = ('v',)

    def __init__(self, v):
        self.v = v

    def isconst(self): return True
    def __neg__(self): return K(-self.v)
    def __abs__(self): return K(abs(self.v))
    def __float__(self): return float(self.v)
    def __int__(self): return int(self.v)
    def __trunc__(self): return math.trunc(self.v)
    def __floor__(self): return math.floor(self.v)
    def __ceil__(self): return math.ceil(self.v)
    def __round__(self, n=None): return round(self.v, n) if n is not None else round(self.v)
    def __hash__(self): return hash(self.v)
    def __bool__(self): return self.v != 0
    def __repr__(self): return 'K(%s)' % (self.v,)
    def __format__(self, spec):
        try:
            return format(float(self.v), spec)
        except Exception:
            return str(self.v)

    def isfinite(self):
        return isinstance(self.v, Fraction)


def _finite(a):
    return not (isinstance(a, K) and not isinstance(a.v, Fraction))


def _sym(a):
    """promote K / forced roots to the symbolic class of the current domain"""
    if isinstance(a, LazySqrt):
        a = a.force()
    if isinstance(a, K):
        if CTX.domain == 'z':
            return ZR(z3.RealVal(str(a.v)))
        if CTX.domain == 'f':
            return FR(z3.FPVal(float(a.v), z3.Float64()))
        return AR(CTX.R.const(a.v))
    return a


def _add(a, b):
    if isinstance(a, K) and isinstance(b, K):
        if _finite(a) and _finite(b):
            return K(a.v + b.v)
        return K(float(a.v) + float(b.v))
    if not _finite(a) or not _finite(b):
        return a if not _finite(a) else b        # inf + symbolic = inf
    if CTX is None or CTX.domain != 'f':
        if isinstance(a, K) and a.v == 0:
            return b
        if isinstance(b, K) and b.v == 0:
            return a
    a, b = _sym(a), _sym(b)
    return a._add(b)


def _mul(a, b):
    if isinstance(a, K) and isinstance(b, K):
        if _finite(a) and _finite(b):
            return K(a.v * b.v)
        return K(float(a.v) * float(b.v))
    if not _finite(a) or not _finite(b):
        raise Unsupported('inf * symbolic')
    if CTX is None or CTX.domain != 'f':
        if isinstance(a, K):
            if a.v == 0: return a
            if a.v == 1: return b
        if isinstance(b, K):
            if b.v == 0: return b
            if b.v == 1: return a
    if isinstance(a, LazySqrt) or isinstance(b, LazySqrt):
        r = LazySqrt._mul(a, b)
        if r is not None:
            return r
    a, b = _sym(a), _sym(b)
    return a._mul(b)


def _div(a, b):
    if isinstance(b, K):
        if not _finite(b):
            if _finite(a):
                return K(F0)
            raise Unsupported('inf / inf')
        if b.v == 0:
            raise DivByZeroEvent('division by the constant 0')
        if isinstance(a, K):
            if _finite(a):
                return K(a.v / b.v)
            return K(float(a.v) / float(b.v))
        return _mul(a, K(1 / b.v))
    if isinstance(a, K) and not _finite(a):
        raise Unsupported('inf / symbolic')
    if isinstance(a, K) and a.v == 0:
        # 0 / x : still a division-by-zero event if x can vanish
        if bool(_cmp(b, K(F0), '==')):
            raise DivByZeroEvent('0/0')
        return a
    if isinstance(a, LazySqrt) and isinstance(b, LazySqrt) and not a.forced and not b.forced:
        if bool(_cmp(b.rad, K(F0), '==')):
            raise DivByZeroEvent('divisor can be zero')
        return sqrt(_div(a.rad, b.rad))
    b = _sym(b)
    if isinstance(b, FR):
        return FR(z3.fpDiv(z3.RNE(), _sym(a).e, b.e))
    return _mul(a, b._inv())


_OPS = {
    '<': lambda a, b: a < b, '<=': lambda a, b: a <= b, '>': lambda a, b: a > b,
    '>=': lambda a, b: a >= b, '==': lambda a, b: a == b, '!=': lambda a, b: a != b,
}
_FLIP = {'<': '>', '<=': '>=', '>': '<', '>=': '<=', '==': '==', '!=': '!='}


def _cmp(a, o, op):
    b = lift(o)
    if b is None:
        if op == '==': return False
        if op == '!=': return True
        return NotImplemented
    f = _OPS[op]
    if isinstance(a, K) and isinstance(b, K):
        return f(a.v, b.v)
    if not _finite(a) or not _finite(b):
        # symbolic values are finite reals
        if not _finite(a):
            return f(float(a.v), 0.0)
        return f(0.0, float(b.v))
    la = isinstance(a, LazySqrt) and not a.forced
    lb = isinstance(b, LazySqrt) and not b.forced
    if la and lb:
        return _cmp(a.rad, b.rad, op)
    if la or lb:
        if lb:
            a, b, op = b, a, _FLIP[op]
            f = _OPS[op]
        # a = sqrt(rad) >= 0, b arbitrary
        if isinstance(b, K):
            if b.v < 0:
                return f(1, 0)            # sqrt(..) >= 0 > b
            if b.v == 0:                  # sqrt(..) >= 0 by definition: no sign proof for the radicand needed
                if op == '<': return False
                if op == '>=': return True
                return _cmp(a.rad, K(F0), '==' if op in ('<=', '==') else '!=')
            return _cmp(a.rad, K(b.v * b.v), op)
        if op in ('==', '!=') and False:
            pass
        # fork on the sign of b
        if bool(_cmp(b, K(F0), '<')):
            return f(1, 0)
        return _cmp(a.rad, _mul(b, b), op)
    a, b = _sym(a), _sym(b)
    return a._cmpz(b, op)


def sqrt(x):
    x = lift(x)
    if CTX is not None and CTX.domain == 'f':
        return FR(z3.fpSqrt(z3.RNE(), _sym(x).e))
    if isinstance(x, K):
        if not _finite(x):
            return x
        if x.v < 0:
            raise DomainEvent('sqrt of a negative constant')
        r = _isq(x.v)
        if r is not None:
            return K(r)
        return LazySqrt(x)
    if isinstance(x, LazySqrt):
        x = x.force()
    return LazySqrt(x)


# ---------------------------------------------------------------------------
class ZR(SR):
    """raw z3 Real term"""
    __slots__ = ('e',)

    def __init__(self, e):
        self.e = e

    def _add(self, o): return ZR(self.e + o.e)
    def _mul(self, o): return ZR(self.e * o.e)
    def __neg__(self): return ZR(-self.e)

    def _inv(self):
        if branch(self.e == 0):
            raise DivByZeroEvent('divisor can be zero')
        return ZR(1 / self.e)

    def __abs__(self):
        if branch(self.e >= 0):
            return self
        return -self

    def _cmpz(self, o, op):
        return SymBool(_OPS[op](self.e, o.e))

    def z3(self): return self.e

    def __repr__(self): return 'ZR(%s)' % (str(self.e)[:60],)


# ---------------------------------------------------------------------------
class FR(SR):
    """IEEE-754 binary64 term (z3 FloatingPoint sort, round-to-nearest-even):
    the bit-precise domain used for the "bit-for-bit" round-trip clauses"""
    __slots__ = ('e',)

    def __init__(self, e):
        self.e = e

    def _add(self, o): return FR(z3.fpAdd(z3.RNE(), self.e, o.e))
    def _mul(self, o): return FR(z3.fpMul(z3.RNE(), self.e, o.e))
    def __neg__(self): return FR(z3.fpNeg(self.e))
    def __abs__(self): return FR(z3.fpAbs(self.e))

    def _inv(self):
        return FR(z3.fpDiv(z3.RNE(), z3.FPVal(1.0, z3.Float64()), self.e))

    def _cmpz(self, o, op):
        f = {'<': z3.fpLT, '<=': z3.fpLEQ, '>': z3.fpGT, '>=': z3.fpGEQ, '==': z3.fpEQ,
             '!=': z3.fpNEQ}[op]
        return SymBool(f(self.e, o.e))

    def z3(self): return self.e

    def __repr__(self): return 'FR(%s)' % (str(self.e)[:60],)


# ---------------------------------------------------------------------------
def _fkey(p):
    return p.key()


class AR(SR):
    """n / prod(f^e) with n and the factors in polynomial normal form"""
    __slots__ = ('n', 'f')

    def __init__(self, n, f=None):
        self.n = n
        self.f = f or {}

    def isconst(self):
        return False

    @staticmethod
    def mk(n, f):
        if n.iszero():
            return K(F0)
        if f:
            g = {}
            R = n.R
            for k, (p, e) in f.items():
                # a pure atom factor a^2 -> radicand
                if len(p.t) == 1 and e >= 2:
                    (m, c), = p.t.items()
                    if len(m) == 1 and m[0][1] == 1 and m[0][0] in R.rel:
                        rad = R.rel[m[0][0]]
                        q, e = divmod(e, 2)
                        cc, rp = rad.content_split()
                        n = n.scale(1 / (cc * c * c) ** q)
                        kk = _fkey(rp)
                        g[kk] = (rp, g.get(kk, (rp, 0))[1] + q)
                        if not e:
                            continue
                g[k] = (p, g.get(k, (p, 0))[1] + e)
            f = {}
            for k, (p, e) in g.items():
                while e > 0:
                    q = n.divexact(p)
                    if q is None:
                        break
                    n = q
                    e -= 1
                if e:
                    f[k] = (p, e)
        if not f and n.isconst():
            return K(n.constval())
        return AR(n, f)

    def den(self):
        d = self.n.R.one
        for p, e in self.f.values():
            d = d * p.pow(e)
        return d

    def _lcm(self, o):
        f = dict(self.f)
        for k, (p, e) in o.f.items():
            f[k] = (p, max(e, f[k][1] if k in f else 0))
        return f

    def _lift_to(self, f):
        n = self.n
        for k, (p, e) in f.items():
            e0 = self.f[k][1] if k in self.f else 0
            if e > e0:
                n = n * p.pow(e - e0)
        return n

    def _add(self, o):
        if not self.f and not o.f:
            return AR.mk(self.n + o.n, None)
        f = self._lcm(o)
        return AR.mk(self._lift_to(f) + o._lift_to(f), f)

    def __neg__(self):
        return AR(-self.n, self.f)

    def _mul(self, o):
        if not self.f and not o.f:
            return AR.mk(self.n * o.n, None)
        a = AR.mk(self.n, o.f) if o.f else AR(self.n)     # cross-cancel: self.n / o.f
        b = AR.mk(o.n, self.f) if self.f else AR(o.n)     #               o.n / self.f
        if isinstance(a, K): a = AR(CTX.R.const(a.v))
        if isinstance(b, K): b = AR(CTX.R.const(b.v))
        # a = self.n / (remaining of o.f), b = o.n / (remaining of self.f)
        f = dict(a.f)
        for k, (p, e) in b.f.items():
            f[k] = (p, e + (f[k][1] if k in f else 0))
        return AR.mk(a.n * b.n, f)

    def _inv(self):
        if not self.n.is_strictly_positive() and branch(self.n.to_z3() == 0):
            raise DivByZeroEvent('divisor can be zero')
        num = self.den()
        n = self.n
        if n.isconst():
            return AR.mk(num.scale(1 / n.constval()), None)
        f = {}
        if len(n.t) == 1:
            # monomial: split into variable factors
            (m, c), = n.t.items()
            num = num.scale(1 / c)
            R = n.R
            for v, e in m:
                p = Poly(R, {((v, 1),): F1})
                f[_fkey(p)] = (p, e)
        else:
            c, p = n.content_split()
            num = num.scale(1 / c)
            f[_fkey(p)] = (p, 1)
            if len(n.R.sqcands) < 64:
                n.R.sqcands.setdefault(_fkey(p), p)
        return AR.mk(num, f)

    def _signfactors(self):
        """z3 terms whose product has the sign of the denominator"""
        out = []
        for p, e in self.f.values():
            if e % 2 == 0:
                continue
            if p.is_sos_like():
                continue        # > 0 (non-negative and non-zero as a divisor)
            out.append(p.to_z3())
        return out

    def signterm(self):
        """z3 term with the same sign as self (0 iff self == 0)"""
        t = self.n.to_z3()
        for s in self._signfactors():
            t = t * s
        return t

    def __abs__(self):
        if self.n.is_sos_like() and not self._signfactors():
            return self
        if branch(self.signterm() >= 0):
            return self
        return -self

    def _cmpz(self, o, op):
        d = self._add(-o)
        if isinstance(d, K):
            return _OPS[op](d.v, 0)
        return SymBool(_OPS[op](d.signterm(), 0))

    def z3(self):
        t = self.n.to_z3()
        if self.f:
            t = t / self.den().to_z3()
        return t

    def sqrt_force(self):
        c = CTX
        R = c.R
        # sqrt(n / prod p^e): even exponents leave the radicand; an odd exponent of a factor
        # that already has a square-root atom a (a^2 = p) contributes 1/a; otherwise the
        # factor is multiplied into the radicand (sqrt(n/p) = sqrt(n p)/p)
        rad = self.n
        f = {}
        for k, (p, e) in self.f.items():
            if e % 2 == 0:
                f[k] = (p, e // 2)
                continue
            if k in R.atom_by_rad:
                a = R.atom_by_rad[k]
                if e // 2:
                    f[k] = (p, e // 2)
                f[a.key()] = (a, f.get(a.key(), (a, 0))[1] + 1)
            else:
                rad = rad * p
                f[k] = (p, e // 2 + 1)
        if rad.iszero():
            return K(F0)
        # pull known non-negative factors out of the radicand:  sqrt(p^2 q) = p sqrt(q) for p >= 0,
        # sqrt(p q) = a sqrt(q) when p already has a square-root atom a.  Candidates are the
        # denominators created so far and the radicands of existing atoms (exact division only).
        outside = R.one
        if len(rad.t) > 1:
            cands = list(R.sqcands.values())
            changed = True
            rounds = 0
            while changed and rounds < 6 and not rad.isconst():
                changed = False
                rounds += 1
                for p in cands:
                    if len(p.t) > len(rad.t):
                        continue
                    k = p.key()
                    nonneg = p.is_sos_like() or k in R.atom_by_rad
                    if nonneg:
                        q = rad.divexact(p)
                        if q is not None:
                            q2 = q.divexact(p)
                            if q2 is not None:
                                rad, outside, changed = q2, outside * p, True
                                continue
                            if k in R.atom_by_rad:
                                rad, outside, changed = q, outside * R.atom_by_rad[k], True
                                continue
            if rad.isconst():
                cv = rad.constval()
                if cv < 0:
                    raise DomainEvent('sqrt of a negative value')
                sq = _isq(cv)
                if sq is not None:
                    return _fixsign(AR.mk(outside.scale(sq), f))
        cf, rp = rad.content_split()
        scale = F1
        if cf > 0:
            sq = _isq(cf)
            if sq is not None:
                rad, scale = rp, sq
        key = rad.key()
        if key not in R.atom_by_rad:
            name = 'rt%d' % c.natoms
            c.natoms += 1
            zv = z3.Real(name)
            c.zvar_by_name[name] = zv
            a = R.var(name)
            R._zvars.append(zv)
            idx = len(R.names) - 1
            zr = rad.to_z3()
            c.add(zv >= 0)
            c.add(zv * zv == zr)
            R.rel[idx] = rad
            R.atom_by_rad[key] = a
        a = R.atom_by_rad[key]
        R.sqcands.setdefault(key, rad)
        r = AR.mk((a * outside).scale(scale), f)
        return _fixsign(r)

    def eval(self, vals):
        v = self.n.eval(vals)
        for p, e in self.f.values():
            v = v / p.eval(vals) ** e
        return v

    def __repr__(self):
        return 'AR(%r / %s)' % (self.n, [(p, e) for p, e in self.f.values()])


def _fixsign(r):
    """make a forced square root non-negative (the denominator may be negative)"""
    if isinstance(r, K):
        return K(abs(r.v))
    if r._signfactors():
        t = z3.RealVal(1)
        for s in r._signfactors():
            t = t * s
        if branch(t < 0):
            return -r
    return r


class LazySqrt(SR):
    """sqrt(rad), rad >= 0; only turned into an algebraic atom when arithmetic
    (other than squaring / products of roots / comparison) needs its value"""
    __slots__ = ('rad', 'forced', '_v')

    def __init__(self, rad):
        self.rad = rad
        self.forced = False
        self._v = None

    def force(self):
        if not self.forced:
            rad = self.rad
            if CTX.domain == 'z':
                c = CTX
                name = 'rt%d' % c.natoms
                c.natoms += 1
                zv = z3.Real(name)
                c.zvar_by_name[name] = zv
                re = rad.e if isinstance(rad, ZR) else z3.RealVal(str(rad.v))
                c.add(zv >= 0)
                c.add(zv * zv == re)
                self._v = ZR(zv)
            else:
                if isinstance(rad, K):
                    rad = AR(CTX.R.const(rad.v))
                self._v = rad.sqrt_force()
            self.forced = True
        return self._v

    @staticmethod
    def _mul(a, b):
        if a is b and isinstance(a, LazySqrt):
            return a.rad
        la = isinstance(a, LazySqrt) and not a.forced
        lb = isinstance(b, LazySqrt) and not b.forced
        if la and lb:
            if _eqsyn(a.rad, b.rad):
                return a.rad
            return sqrt(_mul_sr(a.rad, b.rad))
        if la and isinstance(b, K) and b.v > 0:
            return sqrt(_mul_sr(a.rad, K(b.v * b.v)))
        if lb and isinstance(a, K) and a.v > 0:
            return sqrt(_mul_sr(b.rad, K(a.v * a.v)))
        return None

    def __neg__(self): return -self.force()
    def __abs__(self): return self
    def isconst(self): return False

    def __pow__(self, k):
        if not self.forced and isinstance(k, (int, _np.integer)) and k >= 0 and k % 2 == 0:
            return self.rad ** (int(k) // 2)
        return SR.__pow__(self, k)

    def z3(self):
        return self.force().z3() if not isinstance(self.force(), K) else z3.RealVal(str(self.force().v))

    def __repr__(self):
        return 'sqrt(%r)' % (self.rad,)


def _mul_sr(a, b):
    return _mul(a, b)


def _eqsyn(a, b):
    """syntactic equality of two SR (sound, incomplete)"""
    if isinstance(a, K) and isinstance(b, K):
        return a.v == b.v
    if isinstance(a, AR) and isinstance(b, AR):
        if a.n.t != b.n.t or set(a.f) != set(b.f):
            return False
        return all(a.f[k][1] == b.f[k][1] for k in a.f)
    if isinstance(a, ZR) and isinstance(b, ZR):
        return a.e.eq(b.e)
    return False


# ---------------------------------------------------------------------------
# complex scalars (pairs of SR)
# ---------------------------------------------------------------------------
class SC(numbers.Complex):
    __slots__ = ('re', 'im')
    __hash__ = None

    def __init__(self, re, im=0):
        self.re = lift(re)
        self.im = lift(im)

    @staticmethod
    def of(o):
        if isinstance(o, SC):
            return o
        if isinstance(o, (complex, _np.complexfloating)):
            return SC(o.real, o.imag)
        r = lift(o)
        if r is None:
            return None
        return SC(r, K(F0))

    @property
    def real(self): return self.re

    @property
    def imag(self): return self.im

    def conjugate(self): return SC(self.re, -self.im)
    conj = conjugate

    def __add__(self, o):
        o = SC.of(o)
        if o is None: return NotImplemented
        return SC(self.re + o.re, self.im + o.im)
    __radd__ = __add__

    def __neg__(self): return SC(-self.re, -self.im)
    def __pos__(self): return self

    def __sub__(self, o):
        o = SC.of(o)
        if o is None: return NotImplemented
        return SC(self.re - o.re, self.im - o.im)

    def __rsub__(self, o):
        o = SC.of(o)
        if o is None: return NotImplemented
        return SC(o.re - self.re, o.im - self.im)

    def __mul__(self, o):
        o = SC.of(o)
        if o is None: return NotImplemented
        return SC(self.re * o.re - self.im * o.im, self.re * o.im + self.im * o.re)

    def __rmul__(self, o):
        o = SC.of(o)
        if o is None: return NotImplemented
        return o.__mul__(self)

    def normsq(self): return self.re * self.re + self.im * self.im

    def __truediv__(self, o):
        o = SC.of(o)
        if o is None: return NotImplemented
        if isinstance(o.im, K) and o.im.v == 0:
            return SC(self.re / o.re, self.im / o.re)
        d = o.normsq()
        n = self * o.conjugate()
        return SC(n.re / d, n.im / d)

    def __rtruediv__(self, o):
        o = SC.of(o)
        if o is None: return NotImplemented
        return o.__truediv__(self)

    def __abs__(self): return sqrt(self.normsq())

    def __pow__(self, k):
        if isinstance(k, (int, _np.integer)) and k >= 0:
            r = SC(1, 0)
            for _ in range(int(k)):
                r = r * self
            return r
        raise Unsupported('complex power')

    def __rpow__(self, o): raise Unsupported('complex rpow')
    def __complex__(self):
        if isinstance(self.re, K) and isinstance(self.im, K):
            return complex(float(self.re.v), float(self.im.v))
        raise Unsupported('complex() realisation')

    def __eq__(self, o):
        o = SC.of(o)
        if o is None: return False
        return sb_and([self.re == o.re, self.im == o.im])

    def __ne__(self, o):
        return sb_not(self.__eq__(o))

    def __bool__(self):
        return bool(sb_or([self.re != 0, self.im != 0]))

    def __format__(self, spec): return '<symc>'
    def __repr__(self): return 'SC(%r, %r)' % (self.re, self.im)


# ---------------------------------------------------------------------------
# symbolic option values (enumerated arguments such as mode / side / ord)
# ---------------------------------------------------------------------------
class SymInt:
    """symbolic python int used only in comparisons (z3 Int)"""
    __hash__ = None

    def __init__(self, name):
        self.name = name
        self.e = z3.Int(name)
        CTX.zvar_by_name[name] = self.e

    def _c(self, o, f):
        if isinstance(o, SymInt):
            return SymBool(f(self.e, o.e))
        if isinstance(o, (bool, int, _np.integer)):
            return SymBool(f(self.e, int(o)))
        if isinstance(o, (float, _np.floating)) and float(o) == int(o):
            return SymBool(f(self.e, int(o)))
        return None

    def __eq__(self, o):
        r = self._c(o, lambda a, b: a == b)
        return False if r is None else r

    def __ne__(self, o):
        r = self._c(o, lambda a, b: a != b)
        return True if r is None else r

    def __lt__(self, o): return self._c(o, lambda a, b: a < b)
    def __le__(self, o): return self._c(o, lambda a, b: a <= b)
    def __gt__(self, o): return self._c(o, lambda a, b: a > b)
    def __ge__(self, o): return self._c(o, lambda a, b: a >= b)
    def __index__(self): raise Unsupported('symbolic int used as an index')
    def __int__(self): raise Unsupported('int() of a symbolic int')
    def __format__(self, spec): return '<symint %s>' % self.name
    def __repr__(self): return '<symint %s>' % self.name


class SymStr:
    """symbolic python str used only in (in)equality tests (z3 String)"""
    __hash__ = None

    def __init__(self, name):
        self.name = name
        self.e = z3.String(name)
        CTX.zvar_by_name[name] = self.e

    def __eq__(self, o):
        if isinstance(o, SymStr):
            return SymBool(self.e == o.e)
        if isinstance(o, str):
            return SymBool(self.e == z3.StringVal(o))
        return False

    def __ne__(self, o):
        r = self.__eq__(o)
        return sb_not(r)

    def lower(self): raise Unsupported('str.lower() of a symbolic string')
    def upper(self): raise Unsupported('str.upper() of a symbolic string')
    def __format__(self, spec): return '<symstr %s>' % self.name
    def __repr__(self): return '<symstr %s>' % self.name
    def __str__(self): return '<symstr %s>' % self.name


# ---------------------------------------------------------------------------
# variables, evaluation, exploration
# ---------------------------------------------------------------------------
def var(name):
    return CTX.newvar(name)


def fresh(prefix='t'):
    c = CTX
    c.nfresh += 1
    return c.newvar('%s!%d' % (prefix, c.nfresh), kind='fresh')


def opaque(what, positive=False):
    c = CTX
    v = fresh('opq')
    c.opaque.append(what)
    if positive:
        c.add(to_z3(v) > 0)
    return v


def arr(name, shape):
    a = _np.empty(shape, dtype=object)
    for idx in _np.ndindex(*shape):
        a[idx] = var(name + '_' + '_'.join(map(str, idx)))
    return a


def to_z3(x):
    x = lift(x)
    if isinstance(x, K):
        if CTX is not None and CTX.domain == 'f':
            return z3.FPVal(float(x.v), z3.Float64())
        return z3.RealVal(str(x.v))
    return x.z3()


def eq0_term(x):
    """a z3 term that is zero iff x is zero (avoids division)"""
    x = lift(x)
    if isinstance(x, K):
        return z3.RealVal(str(x.v))
    if isinstance(x, LazySqrt):
        if not x.forced:
            return eq0_term(x.rad)
        x = x.force()
    if isinstance(x, AR):
        return x.n.to_z3()
    return x.z3()


def model_value(m, zv, digits=40):
    """z3 model value -> Fraction (exact if rational, else a close rational)"""
    v = m.eval(zv, model_completion=True)
    if z3.is_string_value(v):
        return v.as_string()
    if z3.is_int_value(v):
        return v.as_long()
    if z3.is_fp(v):
        import struct
        if not isinstance(v, z3.FPNumRef):
            v = z3.simplify(v)
        if not isinstance(v, z3.FPNumRef):
            return 0.0
        if v.isNaN():
            return float('nan')
        if v.isInf():
            return float('-inf') if v.isNegative() else float('inf')
        bits = ((1 if v.isNegative() else 0) << 63) | (v.exponent_as_long(True) << 52) | v.significand_as_long()
        return struct.unpack('>d', bits.to_bytes(8, 'big'))[0]
    if z3.is_rational_value(v):
        return Fraction(v.numerator_as_long(), v.denominator_as_long())
    if z3.is_algebraic_value(v):
        a = v.approx(digits)
        return Fraction(a.numerator_as_long(), a.denominator_as_long())
    s = str(v)
    try:
        return Fraction(s.rstrip('?'))
    except Exception:
        return Fraction(0)


class PathResult:
    __slots__ = ('ctx', 'value', 'exc', 'kind')

    def __init__(self, ctx, value, exc, kind):
        self.ctx = ctx
        self.value = value
        self.exc = exc
        self.kind = kind   # 'return' | 'raise' | 'event' | 'infeasible' | 'unsupported' | 'budget'


def explore(fn, domain='a', max_paths=2000, timeout_ms=5000, deadline=None, on_path=None):
    """run fn() on every feasible path.  fn builds its own symbolic inputs.
    Returns (list of PathResult, leftover work-list)."""
    work = [[]]
    out = []
    while work:
        if len(out) >= max_paths or (deadline is not None and time.time() > deadline):
            break
        dec = work.pop()
        c = Ctx(domain=domain, timeout_ms=timeout_ms, decisions=dec, deadline=deadline)
        set_ctx(c)
        val = exc = None
        try:
            val = fn()
            kind = 'return'
        except Infeasible as e:
            exc, kind = e, 'infeasible'
        except (DivByZeroEvent, DomainEvent) as e:
            exc, kind = e, 'event'
        except Unsupported as e:
            exc, kind = e, 'unsupported'
        except Budget as e:
            exc, kind = e, 'budget'
        except Exception as e:      # exception raised by the code under analysis
            exc, kind = e, 'raise'
        r = PathResult(c, val, exc, kind)
        if on_path is not None:
            try:
                on_path(r)
            except Budget as e:
                r.kind, r.exc = 'budget', e
        out.append(r)
        work.extend(c.work)
    return out, work
